package main

import (
	"fmt"
	"go/ast"
	"go/parser"
	"go/token"
	"go/types"
	"golang.org/x/tools/go/cfg"
	"os"
	"os/exec"
	"path/filepath"
	"sort"
	"strings"
)

func init() {
	register(&property{
		ID:    "C10",
		Run:   runC10,
		Modes: []string{"deadlock"},
		Meta: propMeta{
			Explanation: "Static clauses of ds.List on all CFG paths: (1) handle validation: every ListElement parameter of the nine handle-taking methods is type-asserted, and every splice (insert/insertValue/move/remove) whose argument derives from a handle is dominated by the edge on which that handle's list pointer equals the receiver; splice arguments derive only from validated handles or the sentinel; (2) bookkeeping: len and the element's list pointer change only in insert/remove/Init, and insert/remove change both on every path; (3) the pointer-splice effect sequences of insert/remove/move agree, after normalising atomic Load/Store to field access, with those extracted by the same extractor from $GOROOT/src/container/list (the reference the property names); (4) the thread-safe decorator declares every List method itself, takes the write lock for the 12 mutators and at least the read lock for readers, forwards to the same-named method with its parameters in order, releases on all exits, and never uses a List parameter while holding its own mutex (self-deadlock / AB-BA).",
			NotDecided:  "equality with container/list over operation histories (follows only informally from the clauses); behaviour of foreign ListElement implementations",
			Assumptions: []string{"$GOROOT/src/container/list/list.go is the reference implementation", "atomic.Pointer Load/Store behave as plain field access under the list's own synchronisation"},
		},
	})
}

var listMutators = []string{"Init", "PushFront", "PushBack", "Remove", "InsertBefore", "InsertAfter", "MoveToFront", "MoveToBack", "MoveBefore", "MoveAfter", "PushBackList", "PushFrontList"}

func runC10(c *Ctx) {
	p := c.Load("ds")
	if p == nil {
		return
	}
	r := c.R
	const pkg = "ds"
	info := p.Pkg(pkg).TypesInfo
	checkListCore(r, p)
	// bulk operations of both flavours walk the other list's snapshot completely
	checkBackwardLoopsCoverZero(r, p, pkg, append(p.Methods(pkg, "threadSafeList"), p.Methods(pkg, "list")...))
	checkEndAccessor(r, p, pkg, "list", "MoveToFront", "root.prev", "whether the element is already at the front is decided by the front pointer (with the back pointer MoveToFront(Back()) does nothing)")
	checkEndAccessor(r, p, pkg, "list", "MoveToBack", "root.next", "whether the element is already at the back is decided by the back pointer (with the front pointer MoveToBack(Front()) does nothing)")
	// ---- (4) decorator
	checkOverride(r, p, "decorator/declares-all", pkg, "threadSafeList", "List")
	checkGuards(r, p, "lock/guarded-by", []GuardRow{{Pkg: pkg, Type: "threadSafeList", Mutex: "mutex", Fields: []string{"list"},
		Mutators: map[string][]string{"list": listMutators}}})
	checkLockBalance(r, p, "lock/balance", []string{pkg}, nil, func(k string) bool { return hasPrefixAny(k, "ds.threadSafeList.") })
	checkForwarding(r, p, "fwd/delegates", fwdOpts{Pkg: pkg, Type: "threadSafeList", Field: "list", MinMethods: 20,
		Skip: map[string]string{"PushBackList": "own rule (no List parameter under the lock)", "PushFrontList": "own rule"}})
	checkNoIfaceParamUnderLock(r, p, pkg, "threadSafeList", "List")
	// the two bulk pushes of the decorator: either delegate to the inner bulk push, or push every value of
	// the snapshot (no early exit from the loop)
	for _, row := range []struct{ m, single string }{{"PushBackList", "PushBack"}, {"PushFrontList", "PushFront"}} {
		fd := p.FuncDecl(pkg, "threadSafeList", row.m)
		key := "ds.threadSafeList." + row.m
		if fd == nil {
			r.Unresolved("bulk/complete", key, "method not found")
			continue
		}
		if len(forwardingCalls(info, fd, "list", row.m)) == 1 {
			r.Pass("bulk/complete", key, p.posStr(fd.Pos()), "delegates to the inner bulk push")
			continue
		}
		ok, early := false, false
		ast.Inspect(fd.Body, func(n ast.Node) bool {
			var body *ast.BlockStmt
			switch x := n.(type) {
			case *ast.RangeStmt:
				body = x.Body
			case *ast.ForStmt:
				body = x.Body
			}
			if body == nil {
				return true
			}
			ast.Inspect(body, func(m ast.Node) bool {
				switch y := m.(type) {
				case *ast.CallExpr:
					if se, isSel := ast.Unparen(y.Fun).(*ast.SelectorExpr); isSel && se.Sel.Name == row.single && fieldSel(info, se.X, "list") {
						ok = true
					}
				case *ast.ReturnStmt:
					early = true
				case *ast.BranchStmt:
					if y.Tok == token.BREAK || y.Tok == token.GOTO {
						early = true
					}
				}
				return true
			})
			return true
		})
		if ok && !early {
			r.Pass("bulk/complete", key, p.posStr(fd.Pos()), "pushes every value of the snapshot with "+row.single)
		} else {
			r.Fail("bulk/complete", key, p.posStr(fd.Pos()), "the bulk push must insert every element of the other list (loop with "+row.single+", no early exit)")
		}
	}
}

// checkOverride: every method of interface iface is declared on typ itself (not promoted
// from an embedded field).
func checkOverride(r *Reporter, p *Prog, rule, pkg, typ, iface string) {
	pk := p.Pkg(pkg)
	io := pk.Types.Scope().Lookup(iface)
	to := pk.Types.Scope().Lookup(typ)
	if io == nil || to == nil {
		r.Unresolved(rule, pkg+"."+typ, "type or interface not found")
		return
	}
	it, _ := io.Type().Underlying().(*types.Interface)
	if it == nil {
		r.Unresolved(rule, pkg+"."+iface, "not an interface")
		return
	}
	declared := map[string]bool{}
	for _, fd := range p.Methods(pkg, typ) {
		declared[fd.Name.Name] = true
	}
	n := 0
	for i := 0; i < it.NumMethods(); i++ {
		m := it.Method(i).Name()
		n++
		key := pkg + "." + typ + "." + m
		if declared[m] {
			r.Pass(rule, key, "-", "declared on the decorator")
		} else {
			r.Fail(rule, key, "-", "method "+m+" of "+iface+" is not declared on "+typ+": calls fall through to the embedded, unsynchronised implementation")
		}
	}
	if n == 0 {
		r.Fail(rule, pkg+"."+iface, "-", "interface has no methods (vacuous)")
	}
}

// checkNoIfaceParamUnderLock: while a method of typ holds any mutex, a parameter whose type is
// the interface iface (which typ implements) must not be used.
func checkNoIfaceParamUnderLock(r *Reporter, p *Prog, pkg, typ, iface string) {
	info := p.Pkg(pkg).TypesInfo
	n := 0
	for _, fd := range p.Methods(pkg, typ) {
		if fd.Body == nil {
			continue
		}
		var ps []types.Object
		for _, po := range paramObjs(info, fd) {
			if po != nil && shortTypeName(typeName(po.Type())) == iface {
				ps = append(ps, po)
			}
		}
		if len(ps) == 0 {
			continue
		}
		n++
		fkey := funcKey(pkg, fd)
		var bad []string
		seen := map[ast.Node]bool{}
		AnalyzeLocks(fd.Body, LockSet{}, &FlowOpts{Info: info}, func(nd ast.Node, stack []ast.Node, held LockSet) {
			id, ok := nd.(*ast.Ident)
			if !ok || seen[id] || len(held) == 0 {
				return
			}
			for _, po := range ps {
				if info.Uses[id] == po {
					seen[id] = true
					bad = append(bad, fmt.Sprintf("%s: parameter %s (an arbitrary %s, possibly this very list or one locked in the opposite order) is used while holding %s", p.posStr(id.Pos()), id.Name, iface, held))
				}
			}
		})
		if len(bad) > 0 {
			r.Fail("lock/no-list-param-under-lock", fkey, p.posStr(fd.Pos()), bad[0], bad...)
		} else {
			r.Pass("lock/no-list-param-under-lock", fkey, p.posStr(fd.Pos()), "the other list is only used before the own mutex is taken")
		}
	}
	if n < 2 {
		r.Fail("lock/no-list-param-under-lock", pkg+"."+typ, "-", fmt.Sprintf("expected two methods taking a %s, found %d", iface, n))
	}
}

// ---- splice effect sequences --------------------------------------------------------------

func normPath(e ast.Expr) string {
	switch x := ast.Unparen(e).(type) {
	case *ast.Ident:
		return x.Name
	case *ast.SelectorExpr:
		return normPath(x.X) + "." + x.Sel.Name
	case *ast.CallExpr:
		if se, ok := ast.Unparen(x.Fun).(*ast.SelectorExpr); ok && se.Sel.Name == "Load" && len(x.Args) == 0 {
			return normPath(se.X)
		}
	case *ast.UnaryExpr:
		if x.Op == token.AND {
			return "&" + normPath(x.X)
		}
	}
	return "?" + exprKey(e)
}

// spliceNormalForm evaluates a straight-line splice body (insert/remove/move of a sentinel ring)
// into a normal form that is stable under behaviour-preserving rewrites: temporaries are
// substituted, a load of B.f is resolved against the earlier stores to field f (forwarded from a
// store to the same base, skipped over stores to bases that the tabled ring invariants or a
// guard prove distinct) and otherwise becomes an opaque load tagged with the position in the
// store log it depends on - so hoisting a load across a store that MAY alias changes the form
// (that is exactly what breaks MoveAfter(e, e.Prev())), while hoisting it across an unrelated
// store does not. Result: per-field store logs, bookkeeping effects, guards.
type spliceNF struct {
	logs   map[string][][2]string // field -> ordered (base, value)
	book   []string
	guards []string
	undec  []string
}

func (nf *spliceNF) String() string {
	var fields []string
	for f := range nf.logs {
		fields = append(fields, f)
	}
	sort.Strings(fields)
	var parts []string
	for _, f := range fields {
		var ss []string
		for _, st := range nf.logs[f] {
			ss = append(ss, st[0]+"."+f+"="+st[1])
		}
		parts = append(parts, strings.Join(ss, "; "))
	}
	return fmt.Sprintf("stores[%s] bookkeeping%v guards%v%s", strings.Join(parts, " | "), nf.book, nf.guards, strings.Join(nf.undec, ""))
}

// spliceParamRename: parameter names of the analysed splice body -> the names the reference uses
var spliceParamRename map[string]string

func spliceNormalForm(body *ast.BlockStmt, facts [][2]string, helperOf ...func(*ast.CallExpr) *ast.FuncDecl) *spliceNF {
	nf := &spliceNF{logs: map[string][][2]string{}}
	env := map[string]string{}
	for k, v := range spliceParamRename {
		env[k] = v
	}
	distinct := func(a, b string) bool {
		if a == "nil" || b == "nil" {
			return a != b
		}
		for _, f := range facts {
			if f[0] == a && f[1] == b || f[0] == b && f[1] == a {
				return true
			}
		}
		return false
	}
	isPtrField := func(f string) bool { return f == "next" || f == "prev" }
	var term func(e ast.Expr) string
	resolve := func(b, f string) string {
		log := nf.logs[f]
		for i := len(log) - 1; i >= 0; i-- {
			if log[i][0] == b {
				return log[i][1]
			}
			if !distinct(log[i][0], b) {
				return fmt.Sprintf("L(%s.%s@%d)", b, f, i+1)
			}
		}
		return fmt.Sprintf("L(%s.%s@0)", b, f)
	}
	term = func(e ast.Expr) string {
		switch x := ast.Unparen(e).(type) {
		case *ast.Ident:
			if v, ok := env[x.Name]; ok {
				return v
			}
			return x.Name
		case *ast.SelectorExpr:
			if isPtrField(x.Sel.Name) {
				return resolve(term(x.X), x.Sel.Name)
			}
			return term(x.X) + "." + x.Sel.Name
		case *ast.CallExpr:
			if se, ok := ast.Unparen(x.Fun).(*ast.SelectorExpr); ok && se.Sel.Name == "Load" && len(x.Args) == 0 {
				return term(se.X)
			}
			// atomic exchange x.f.Swap(v): the value is the current x.f, then x.f = v
			if se, ok := ast.Unparen(x.Fun).(*ast.SelectorExpr); ok && se.Sel.Name == "Swap" && len(x.Args) == 1 {
				if fs, isSel := ast.Unparen(se.X).(*ast.SelectorExpr); isSel && isPtrField(fs.Sel.Name) {
					old := term(fs)
					v := term(x.Args[0])
					nf.logs[fs.Sel.Name] = append(nf.logs[fs.Sel.Name], [2]string{term(fs.X), v})
					return old
				}
			}
		case *ast.UnaryExpr:
			if x.Op == token.AND {
				return "&" + term(x.X)
			}
		}
		return "?" + exprKey(e)
	}
	store := func(lhs ast.Expr, rhs ast.Expr) {
		se, ok := ast.Unparen(lhs).(*ast.SelectorExpr)
		if !ok {
			if id, isId := ast.Unparen(lhs).(*ast.Ident); isId {
				env[id.Name] = term(rhs)
				return
			}
			nf.undec = append(nf.undec, " ?store "+exprKey(lhs))
			return
		}
		if isPtrField(se.Sel.Name) {
			v := term(rhs) // evaluated before the store takes effect
			b := term(se.X)
			nf.logs[se.Sel.Name] = append(nf.logs[se.Sel.Name], [2]string{b, v})
			return
		}
		nf.book = append(nf.book, term(se.X)+"."+se.Sel.Name+" = "+term(rhs))
	}
	var run func(list []ast.Stmt, depth int)
	run = func(list []ast.Stmt, depth int) {
		for _, st := range list {
			switch x := st.(type) {
			case *ast.AssignStmt:
				if len(x.Lhs) == len(x.Rhs) {
					vals := make([]string, len(x.Rhs))
					for i := range x.Rhs {
						vals[i] = term(x.Rhs[i])
					}
					for i := range x.Lhs {
						if id, isId := ast.Unparen(x.Lhs[i]).(*ast.Ident); isId {
							env[id.Name] = vals[i]
						} else {
							store(x.Lhs[i], x.Rhs[i])
						}
					}
				} else {
					nf.undec = append(nf.undec, " ?assign")
				}
			case *ast.DeclStmt:
				ok := false
				if gd, isGen := x.Decl.(*ast.GenDecl); isGen && gd.Tok == token.VAR {
					ok = true
					for _, sp := range gd.Specs {
						vs := sp.(*ast.ValueSpec)
						if len(vs.Values) != len(vs.Names) {
							ok = false
							break
						}
						for i, nm := range vs.Names {
							env[nm.Name] = term(vs.Values[i])
						}
					}
				}
				if !ok {
					nf.undec = append(nf.undec, " ?decl")
				}
			case *ast.ExprStmt:
				if c, ok := x.X.(*ast.CallExpr); ok {
					if se, ok := ast.Unparen(c.Fun).(*ast.SelectorExpr); ok && se.Sel.Name == "Store" && len(c.Args) == 1 {
						store(se.X, c.Args[0])
						continue
					}
					// an unexported helper of the same type (a piece of the splice that was split
					// off): evaluate its body in place with the parameters bound to the argument terms
					if len(helperOf) > 0 && helperOf[0] != nil && depth < 3 {
						if hd := helperOf[0](c); hd != nil && hd.Body != nil {
							saved := env
							env = map[string]string{}
							for k, v := range saved {
								env[k] = v
							}
							bind := map[string]string{}
							if hd.Recv != nil && len(hd.Recv.List) == 1 && len(hd.Recv.List[0].Names) == 1 {
								if se, ok := ast.Unparen(c.Fun).(*ast.SelectorExpr); ok {
									bind[recvIdentOf(hd).Name] = term(se.X)
								}
							}
							i := 0
							for _, fl := range hd.Type.Params.List {
								for _, nm := range fl.Names {
									if i < len(c.Args) {
										bind[nm.Name] = term(c.Args[i])
									}
									i++
								}
							}
							for k, v := range bind {
								env[k] = v
							}
							run(hd.Body.List, depth+1)
							env = saved
							continue
						}
					}
				}
				nf.undec = append(nf.undec, " ?stmt "+exprKey(x.X))
			case *ast.IncDecStmt:
				nf.book = append(nf.book, term(x.X)+x.Tok.String())
			case *ast.IfStmt:
				// membership test and release in one step: if x.list.CompareAndSwap(l, nil) { ...splice... }
				// is the splice under the guard x.list == l together with x.list = nil
				if c, ok := ast.Unparen(x.Cond).(*ast.CallExpr); ok && x.Else == nil && x.Init == nil && len(c.Args) == 2 {
					if se, ok := ast.Unparen(c.Fun).(*ast.SelectorExpr); ok && se.Sel.Name == "CompareAndSwap" {
						if fs, isSel := ast.Unparen(se.X).(*ast.SelectorExpr); isSel && fs.Sel.Name == "list" {
							nf.book = append(nf.book, term(fs.X)+".list = "+term(c.Args[1]))
							run(x.Body.List, depth)
							continue
						}
					}
				}
				// guard: if a == b { return }  adds the fact a != b for the rest
				if be, ok := ast.Unparen(x.Cond).(*ast.BinaryExpr); ok && be.Op == token.EQL && len(x.Body.List) == 1 && x.Else == nil && x.Init == nil {
					if _, isRet := x.Body.List[0].(*ast.ReturnStmt); isRet {
						a, b := term(be.X), term(be.Y)
						if b < a {
							a, b = b, a
						}
						nf.guards = append(nf.guards, a+"=="+b+" -> return")
						facts = append(facts, [2]string{a, b})
						continue
					}
				}
				nf.undec = append(nf.undec, " ?if "+exprKey(x.Cond))
			case *ast.ReturnStmt:
			default:
				nf.undec = append(nf.undec, fmt.Sprintf(" ?%T", st))
			}
		}
	}
	run(body.List, 0)
	// stores of one field to pairwise distinct bases commute: their order is not part of the effect
	for f, log := range nf.logs {
		pairwise := true
		for i := range log {
			for j := i + 1; j < len(log); j++ {
				if !distinct(log[i][0], log[j][0]) {
					pairwise = false
				}
			}
		}
		if pairwise {
			sort.Slice(log, func(i, j int) bool { return log[i][0] < log[j][0] })
			nf.logs[f] = log
		}
	}
	sort.Strings(nf.book)
	sort.Strings(nf.guards)
	return nf
}

// ring invariants used as distinctness facts (sentinel ring: an element's neighbours are never
// the element itself; insert is called with e not in the ring next to at)
var spliceFacts = map[string][][2]string{
	"insert": {{"e", "at"}},
	"remove": {{"L(e.prev@0)", "e"}, {"L(e.next@0)", "e"}},
	"move":   {{"L(e.prev@0)", "e"}, {"L(e.next@0)", "e"}},
}

func checkSpliceShape(r *Reporter, p *Prog) {
	goroot := os.Getenv("GOROOT")
	if out, err := exec.Command("go", "env", "GOROOT").Output(); err == nil && strings.TrimSpace(string(out)) != "" {
		goroot = strings.TrimSpace(string(out))
	}
	refFile := filepath.Join(goroot, "src", "container", "list", "list.go")
	fset := token.NewFileSet()
	ref, err := parser.ParseFile(fset, refFile, nil, 0)
	if err != nil {
		r.Unresolved("splice/agrees-with-container-list", "container/list", "cannot parse reference "+refFile+": "+err.Error())
		return
	}
	refBodies := map[string]*ast.BlockStmt{}
	for _, d := range ref.Decls {
		if fd, ok := d.(*ast.FuncDecl); ok && fd.Recv != nil && fd.Body != nil {
			refBodies[fd.Name.Name] = fd.Body
		}
	}
	roles := findListRoles(p)
	for _, name := range []string{"insert", "remove", "move"} {
		key := "ds.list." + name
		fd := roles.byRole[name]
		rb := refBodies[name]
		if fd == nil || rb == nil {
			r.Unresolved("splice/agrees-with-container-list", key, "function or reference not found"+roles.why[name])
			continue
		}
		helperOf := func(c *ast.CallExpr) *ast.FuncDecl {
			fn := staticCallee(p.Pkg("ds").TypesInfo, c)
			if fn == nil {
				return nil
			}
			hd := p.decls().byFunc[fn.Origin()]
			if hd == nil || hd.Name.IsExported() || hd == fd {
				return nil
			}
			return hd
		}
		// the parameters are named as in the reference, by role: the list, then the elements in order
		spliceParamRename = map[string]string{}
		{
			var refNames []string
			for _, d := range ref.Decls {
				if rfd, ok := d.(*ast.FuncDecl); ok && rfd.Recv != nil && rfd.Name.Name == name {
					for _, fl := range rfd.Type.Params.List {
						for _, nm := range fl.Names {
							refNames = append(refNames, nm.Name)
						}
					}
				}
			}
			if id := recvIdentOf(fd); id.Name != "_" {
				spliceParamRename[id.Name] = "l"
			}
			i := 0
			for _, fl := range fd.Type.Params.List {
				for _, nm := range fl.Names {
					if nm == recvIdentOf(fd) {
						continue
					}
					if i < len(refNames) {
						spliceParamRename[nm.Name] = refNames[i]
					}
					i++
				}
			}
		}
		got := spliceNormalForm(fd.Body, spliceFacts[name], helperOf)
		spliceParamRename = nil
		want := spliceNormalForm(rb, spliceFacts[name])
		switch {
		case len(got.undec) > 0:
			r.Fail("splice/agrees-with-container-list", key, p.posStr(fd.Pos()), "the splice body contains a construct the normal form does not cover (undecided counts as failed): "+got.String())
		case got.String() == want.String():
			n := 0
			for _, l := range got.logs {
				n += len(l)
			}
			r.Pass("splice/agrees-with-container-list", key, p.posStr(fd.Pos()), fmt.Sprintf("%d pointer stores; normal form equals container/list.%s: %s", n, name, got.String()))
		default:
			r.Fail("splice/agrees-with-container-list", key, p.posStr(fd.Pos()), fmt.Sprintf("the pointer updates differ from container/list.%s for some ring shape (a load moved across a store that may alias it, a store dropped or redirected): got %s, reference %s", name, got.String(), want.String()))
		}
	}
}

// checkListCore: handle validation, len/list bookkeeping and splice shapes of ds.list - the rules
// every user of ds.List as a registry relies on (shared with C13: the subscriber lists of the
// reactive types are ds.Lists whose handles are removed by the unsubscribe closures).
// sentinelObj stands for the list's sentinel in originRoots.
var sentinelObj types.Object = types.NewVar(token.NoPos, nil, "<sentinel>", types.Typ[types.Invalid])

func checkListCore(r *Reporter, p *Prog) {
	const pkg = "ds"
	pk := p.Pkg(pkg)
	info := pk.TypesInfo

	// ---- (1) handle validation
	roles := findListRoles(p)
	// a call of a splice primitive (by role, not by name: any unexported function of the package that
	// rewires the ring, directly or through further helpers), method or package-level function
	spliceCall := func(c *ast.CallExpr) (string, bool) {
		fn := staticCallee(info, c)
		if fn == nil || !roles.splice[fn] {
			return "", false
		}
		return funcName(fn), true
	}
	nHandleMethods := 0
	for _, fd := range p.Methods(pkg, "list") {
		if fd.Body == nil {
			continue
		}
		var handleParams []types.Object
		for _, po := range paramObjs(info, fd) {
			if po != nil && shortTypeName(typeName(po.Type())) == "ListElement" {
				handleParams = append(handleParams, po)
			}
		}
		if len(handleParams) == 0 {
			continue
		}
		// an unexported helper that is spliced into every caller (a shared body, an assertion helper) is
		// judged inside each exported operation that uses it, not on its own
		if !fd.Name.IsExported() && splicedEverywhere(p, pkg, fd) {
			continue
		}
		nHandleMethods++
		fkey := funcKey(pkg, fd)
		f := newFuncCFG(p, info, fd.Body, fkey)
		recvName := recvIdentOf(fd).Name
		typedOf := map[types.Object]types.Object{} // param -> typed variable
		paramOfTyped := map[types.Object]types.Object{}
		// (searched on the method with its unexported helpers in place: an exported operation may only
		// forward its handle to a shared body that asserts and validates it)
		var allNodes []ast.Node
		nodePt := map[ast.Node]Point{}
		for _, b := range f.G.Blocks {
			if !b.Live {
				continue
			}
			for i, nd := range b.Nodes {
				allNodes = append(allNodes, nd)
				nodePt[nd] = Point{b, i}
			}
		}
		visitTyped := func(n ast.Node) bool {
			as, ok := n.(*ast.AssignStmt)
			if !ok || len(as.Rhs) != 1 || len(as.Lhs) < 1 {
				return true
			}
			// the typed view of a handle parameter: a *listElement variable defined from a type
			// assertion on the parameter or from a helper that receives the parameter
			var src ast.Expr
			switch x := ast.Unparen(as.Rhs[0]).(type) {
			case *ast.TypeAssertExpr:
				if x.Type != nil {
					src = x.X
				}
			case *ast.CallExpr:
				if len(x.Args) == 1 {
					src = x.Args[0]
				}
			}
			if src == nil {
				return true
			}
			if po := objOfIdent(info, src); po != nil {
				isHandle := false
				for _, hp := range handleParams {
					if hp == po {
						isHandle = true
					} else if pt, has := nodePt[n]; has && f.IsVar(src, pt, hp) {
						isHandle, po = true, hp
					}
				}
				if tv := objOfIdent(info, as.Lhs[0]); isHandle && tv != nil && shortTypeName(typeName(tv.Type())) == "listElement" {
					typedOf[po] = tv
					paramOfTyped[tv] = po
				}
			}
			return true
		}
		for _, nd := range allNodes {
			if as, ok := nd.(*ast.AssignStmt); ok {
				visitTyped(as)
			}
		}
		// originRoots: the variables a value derives from on some path, looking through locals, .Load()
		// of a link and type assertions (`at := pos; if before { at = pos.prev.Load() }`)
		originRoots := func(a ast.Expr, apt Point) []types.Object {
			var out []types.Object
			for _, o := range f.Origins(a, apt) {
				e := ast.Unparen(o.E)
				for i := 0; i < 4; i++ {
					switch x := e.(type) {
					case *ast.CallExpr:
						if se, isSel := ast.Unparen(x.Fun).(*ast.SelectorExpr); isSel && se.Sel.Name == "Load" && len(x.Args) == 0 {
							e = ast.Unparen(se.X)
							continue
						}
					case *ast.TypeAssertExpr:
						e = ast.Unparen(x.X)
						continue
					}
					break
				}
				ro := rootObj(info, e)
				if ro != nil && strings.Contains(exprKey(e), ".root") && ro.Name() == recvName {
					ro = nil // the sentinel: always a member
					out = append(out, sentinelObj)
					continue
				}
				out = append(out, ro)
			}
			return out
		}
		for _, hp := range handleParams {
			key := fmt.Sprintf("%s param %s", fkey, hp.Name())
			tv := typedOf[hp]
			if tv == nil {
				r.Fail("handle/validated", key, p.posStr(fd.Pos()), "the handle parameter is never type-asserted to *listElement, so its list pointer is never compared with the receiver: a removed or foreign handle is spliced into this list (or the parameter is ignored)")
				continue
			}
			// edges where tv.list.Load() == l holds
			eq := f.RelEdges(func(rel Rel) bool {
				a, b := tv.Name()+".list.Load()", recvName
				return rel.Op == "==" && ((rel.L == a && rel.R == b) || (rel.L == b && rel.R == a))
			})
			// the membership test may be an atomic CompareAndSwap(receiver, nil) on the handle's list
			// pointer, in this method or in the splice helper it is handed to (spliced in)
			recvO := recvObj(info, fd)
			f.forEachEdgeFact(func(e Edge, eb *cfg.Block, ft fact) {
				cl, ok := ast.Unparen(ft.Atom).(*ast.CallExpr)
				if !ok || !ft.Pol || len(cl.Args) != 2 {
					return
				}
				se, ok := ast.Unparen(cl.Fun).(*ast.SelectorExpr)
				if !ok || se.Sel.Name != "CompareAndSwap" {
					return
				}
				fs, ok := ast.Unparen(se.X).(*ast.SelectorExpr)
				if !ok || fs.Sel.Name != "list" {
					return
				}
				ept := Point{eb, len(eb.Nodes) - 1}
				if f.IsVar(fs.X, ept, tv) && recvO != nil && f.IsVar(cl.Args[0], ept, recvO) {
					eq = append(eq, e)
				}
			})
			if len(eq) == 0 {
				r.Fail("handle/validated", key, p.posStr(fd.Pos()), "no comparison of "+tv.Name()+".list.Load() with the receiver")
				continue
			}
			// every splice using tv must be dominated by eq
			nUse := 0
			ok := true
			for _, pt := range f.Find(func(n ast.Node) bool {
				c, isCall := n.(*ast.CallExpr)
				if !isCall {
					return false
				}
				if _, isSp := spliceCall(c); !isSp {
					return false
				}
				for _, a := range c.Args {
					if rootObj(info, a) == tv || mentionsObj(info, []ast.Expr{a}, tv) {
						return true
					}
					if apt, okp := f.PointOf(c); okp && rootObj(info, a) != nil {
						for _, ro := range originRoots(a, apt) {
							if ro == tv || (ro != nil && ro == hp) {
								return true
							}
						}
					}
				}
				return false
			}) {
				nUse++
				if w, only := f.OnlyThroughEdges(pt, eq); !only {
					// the helper may validate the handle itself: it is spliced in, and every effect inside
					// it (pointer stores and exchanges, len/list bookkeeping) lies behind a membership edge
					inHelper := false
					var call *ast.CallExpr
					inspectNoLit(f.nodeAt(pt), func(m ast.Node) bool {
						if c, isCall := m.(*ast.CallExpr); isCall && call == nil {
							if _, isSp := spliceCall(c); isSp {
								call = c
							}
						}
						return true
					})
					if reg := f.regionByCall(call); call != nil && reg != nil {
						inHelper = true
						nEff := 0
						for _, b := range f.G.Blocks {
							if !b.Live {
								continue
							}
							in := false
							for rg := f.regionOf[b]; rg != nil; rg = rg.parent {
								if rg == reg {
									in = true
								}
							}
							if !in {
								continue
							}
							for i, nd := range b.Nodes {
								isEff := false
								inspectNoLit(nd, func(m ast.Node) bool {
									switch y := m.(type) {
									case *ast.IncDecStmt:
										isEff = true
									case *ast.CallExpr:
										if se, isSel := ast.Unparen(y.Fun).(*ast.SelectorExpr); isSel && (se.Sel.Name == "Store" || se.Sel.Name == "Swap") {
											isEff = true
										}
									}
									return true
								})
								if !isEff {
									continue
								}
								nEff++
								if _, only2 := f.OnlyThroughEdges(Point{b, i}, eq); !only2 {
									inHelper = false
								}
							}
						}
						if nEff == 0 {
							inHelper = false
						}
					}
					if !inHelper {
						ok = false
						r.Fail("handle/validated", key, f.PosOf(pt), "a splice using this handle is reachable without establishing that the handle belongs to this list", w...)
					}
				}
			}
			if nUse == 0 {
				r.Fail("handle/validated", key, p.posStr(fd.Pos()), "the validated handle is never used in a splice (the parameter has no effect)")
			} else if ok {
				r.Pass("handle/validated", key, p.posStr(fd.Pos()), fmt.Sprintf("asserted, compared with the receiver, %d splice use(s) dominated by the membership edge", nUse))
			}
		}
		// splice arguments derive only from validated handles or the sentinel
		inspectNoLit(fd.Body, func(n ast.Node) bool {
			c, isCall := n.(*ast.CallExpr)
			if !isCall {
				return true
			}
			spName, isSp := spliceCall(c)
			if !isSp {
				return true
			}
			for i, a := range c.Args {
				if !strings.HasSuffix(typeName(info.TypeOf(a)), "listElement") {
					continue
				}
				ro := rootObj(info, a)
				okSrc := false
				if ro != nil && paramOfTyped[ro] != nil {
					okSrc = true
				}
				// a local that holds, on every path, a validated handle or a neighbour reached from one
				if !okSrc && ro != nil {
					if apt, okp := f.PointOf(c); okp {
						roots := originRoots(a, apt)
						all := len(roots) > 0
						for _, oro := range roots {
							if oro == nil || (oro != sentinelObj && paramOfTyped[oro] == nil && typedOf[oro] == nil) {
								all = false
							}
						}
						okSrc = all
					}
				}
				key := fmt.Sprintf("%s %s arg %d", fkey, spName, i)
				if okSrc {
					r.Pass("handle/splice-args", key, p.posStr(a.Pos()), exprKey(a)+" derives from a validated handle or the sentinel")
				} else {
					r.Fail("handle/splice-args", key, p.posStr(a.Pos()), exprKey(a)+" is neither derived from a validated handle nor from the sentinel")
				}
			}
			return true
		})
	}
	// ---- (1b) a handle handed out is nil or an element, never a typed nil: every operation whose result
	// type is the handle interface returns either the untyped nil, a value that already is the
	// interface, or a concrete element pointer none of whose origins (through temporaries and the
	// return sites of unexported helpers) is a nil literal. A nil *listElement converted to
	// ListElement is != nil for the caller and panics on first use.
	nIface := 0
	for _, fd := range p.Methods(pkg, "list") {
		if fd.Body == nil || fd.Type.Results == nil || len(fd.Type.Results.List) != 1 || !fd.Name.IsExported() {
			continue
		}
		rt := info.TypeOf(fd.Type.Results.List[0].Type)
		if rt == nil || shortTypeName(typeName(rt)) != "ListElement" {
			continue
		}
		if _, isIface := rt.Underlying().(*types.Interface); !isIface {
			continue
		}
		nIface++
		fkey := funcKey(pkg, fd)
		f := newFuncCFG(p, info, fd.Body, fkey+"/typed-nil")
		bad := ""
		for _, rpt := range f.Find(func(n ast.Node) bool { _, ok := n.(*ast.ReturnStmt); return ok }) {
			rs := f.nodeAt(rpt).(*ast.ReturnStmt)
			if len(rs.Results) != 1 || isNil(info, rs.Results[0]) {
				continue
			}
			t := info.TypeOf(rs.Results[0])
			if t == nil {
				continue
			}
			if _, isPtr := t.Underlying().(*types.Pointer); !isPtr {
				continue // already the interface
			}
			for _, o := range f.Origins(rs.Results[0], rpt) {
				if isNil(info, o.E) {
					bad = fmt.Sprintf("%s: the concrete pointer returned here can be the nil literal at %s: converted to the handle interface it is a non-nil handle wrapping a nil element", f.PosOf(rpt), p.posStr(o.E.Pos()))
				}
			}
		}
		if bad != "" {
			r.Fail("handle/no-typed-nil", fkey, p.posStr(fd.Pos()), bad)
		} else {
			r.Pass("handle/no-typed-nil", fkey, p.posStr(fd.Pos()), "returns the untyped nil, an interface value, or an element pointer that is never a nil literal")
		}
	}
	if nIface < 4 {
		r.Fail("handle/no-typed-nil", "ds.list", "-", fmt.Sprintf("expected at least 4 exported operations returning a handle, found %d (vacuous)", nIface))
	}
	if nHandleMethods < 7 {
		r.Fail("handle/validated", "ds.list handle-taking methods", "-", fmt.Sprintf("expected at least 7 methods taking element handles, found %d", nHandleMethods))
	}
	// a handle stays inert after its element was removed (container/list: Remove clears e.list for
	// good): the element linked in by an insertion is allocated by that insertion. An element taken
	// from a pool or free list is still referred to by the handle of its previous life, which then
	// reads the new value and removes or moves the new occupant.
	if ins := roles.byRole["insert"]; ins == nil {
		r.Unresolved("handle/fresh-element", "ds.list.insert", "insert primitive not found"+roles.why["insert"])
	} else {
		insFn, _ := info.Defs[ins.Name].(*types.Func)
		nIns := 0
		for _, fd := range p.AllFuncDecls("ds") {
			if fd.Body == nil || fd == ins || strings.HasSuffix(p.Fset.Position(fd.Pos()).Filename, "_test.go") {
				continue
			}
			direct := false
			ast.Inspect(fd.Body, func(n ast.Node) bool {
				if c, ok := n.(*ast.CallExpr); ok {
					if fn := staticCallee(info, c); fn != nil && fn.Origin() == insFn {
						direct = true
					}
				}
				return !direct
			})
			if !direct {
				continue
			}
			f := newFuncCFG(p, info, fd.Body, funcKey("ds", fd))
			for _, c := range f.Calls(func(c *ast.CallExpr) bool {
				fn := staticCallee(info, c)
				return fn != nil && fn.Origin() == insFn && len(c.Args) >= 1
			}) {
				cpt, found := f.PointOf(c)
				if !found {
					continue
				}
				// the element is the first argument of element type (a former method takes the list first)
				var elemArg ast.Expr
				for _, a := range c.Args {
					if shortTypeName(typeName(info.TypeOf(a))) == "listElement" {
						elemArg = a
						break
					}
				}
				if elemArg == nil {
					continue
				}
				nIns++
				key := funcKey("ds", fd)
				if why := notFreshlyAllocated(f, info, elemArg, cpt); why != "" {
					r.Fail("handle/fresh-element", key, p.posStr(c.Pos()), "the element linked into the list must be allocated by this insertion: "+why+" - the handle of its previous life is live again and acts on the new occupant")
				} else {
					r.Pass("handle/fresh-element", key, p.posStr(c.Pos()), "the inserted element is a fresh allocation on every path")
				}
			}
		}
		if nIns == 0 {
			r.Fail("handle/fresh-element", "ds.list", "-", "no caller of the insert primitive found (vacuous)")
		}
	}

	// ---- (2) bookkeeping
	type site struct{ fn, what string }
	var sites []site
	ofType := func(e ast.Expr, field, typ string) bool {
		se, ok := ast.Unparen(e).(*ast.SelectorExpr)
		if !ok || se.Sel.Name != field {
			return false
		}
		sel := info.Selections[se]
		return sel != nil && sel.Kind() == types.FieldVal && shortTypeName(typeName(sel.Recv())) == typ
	}
	for _, fd := range p.AllFuncDecls(pkg) {
		if fd.Body == nil || strings.HasSuffix(p.Fset.Position(fd.Pos()).Filename, "_test.go") {
			continue
		}
		ast.Inspect(fd.Body, func(n ast.Node) bool {
			switch x := n.(type) {
			case *ast.IncDecStmt:
				if ofType(x.X, "len", "list") {
					sites = append(sites, site{fd.Name.Name, "len" + x.Tok.String()})
				}
			case *ast.AssignStmt:
				for _, l := range x.Lhs {
					if ofType(l, "len", "list") {
						sites = append(sites, site{fd.Name.Name, "len=" + exprKey(x.Rhs[0])})
					}
				}
			case *ast.CallExpr:
				if se, ok := ast.Unparen(x.Fun).(*ast.SelectorExpr); ok && se.Sel.Name == "Store" && ofType(se.X, "list", "listElement") && len(x.Args) == 1 {
					v := "recv"
					if isNil(info, x.Args[0]) {
						v = "nil"
					}
					sites = append(sites, site{fd.Name.Name, "list.Store(" + v + ")"})
				}
				// CompareAndSwap(old, new) on the list pointer stores new (when it succeeds)
				if se, ok := ast.Unparen(x.Fun).(*ast.SelectorExpr); ok && se.Sel.Name == "CompareAndSwap" && ofType(se.X, "list", "listElement") && len(x.Args) == 2 {
					v := "recv"
					if isNil(info, x.Args[1]) {
						v = "nil"
					}
					sites = append(sites, site{fd.Name.Name, "list.Store(" + v + ")"})
				}
			}
			return true
		})
	}
	// by role, not by name: the one unexported function that counts an element in is the one that marks
	// it as a member, the one that counts it out is the one that clears the mark; len is reset by Init only
	want := map[string]string{"len++": "the insert primitive", "len--": "the remove primitive", "len=0": "Init", "list.Store(recv)": "the insert primitive", "list.Store(nil)": "the remove primitive"}
	got := map[string][]string{}
	for _, s := range sites {
		got[s.what] = append(got[s.what], s.fn)
	}
	var whats []string
	for w := range got {
		whats = append(whats, w)
	}
	for w := range want {
		if _, ok := got[w]; !ok {
			whats = append(whats, w)
		}
	}
	sort.Strings(whats)
	one := func(w string) string {
		if len(got[w]) == 1 {
			return got[w][0]
		}
		return ""
	}
	unexported := func(n string) bool { return n != "" && !ast.IsExported(n) }
	for _, w := range whats {
		key := "ds.list " + w
		fns := got[w]
		wf, ok := want[w]
		good := false
		switch w {
		case "len++", "len--":
			good = unexported(one(w))
		case "list.Store(recv)":
			good = unexported(one(w)) && one(w) == one("len++")
		case "list.Store(nil)":
			good = unexported(one(w)) && one(w) == one("len--")
		case "len=0":
			good = one(w) == "Init"
		}
		if ok && good {
			r.Pass("bookkeeping/sites", key, "-", "only in "+fns[0])
		} else if ok {
			r.Fail("bookkeeping/sites", key, "-", fmt.Sprintf("must occur exactly once, in %s (counting and membership mark together); found in %v", wf, fns))
		} else {
			r.Fail("bookkeeping/sites", key, "-", fmt.Sprintf("unexpected modification of len / element.list in %v", fns))
		}
	}

	// ---- (3) splice shape vs container/list
	checkSpliceShape(r, p)

}

// listRoles: the splice primitives of ds.list found by what they do, so that renaming them or turning
// them into package-level functions does not matter. A primitive is an unexported function of the
// package that (directly or through further unexported helpers) stores into the next/prev pointers of a
// listElement. insert is the one that contains len++, remove the one that contains len--, move the
// top-most one (not called by another primitive) that reaches neither.
type listRoles struct {
	byRole map[string]*ast.FuncDecl
	why    map[string]string
	splice map[*types.Func]bool
}

func findListRoles(p *Prog) *listRoles {
	const pkg = "ds"
	out := &listRoles{byRole: map[string]*ast.FuncDecl{}, why: map[string]string{}, splice: map[*types.Func]bool{}}
	pk := p.Pkg(pkg)
	if pk == nil {
		return out
	}
	info := pk.TypesInfo
	isElemLink := func(e ast.Expr) bool {
		se, ok := ast.Unparen(e).(*ast.SelectorExpr)
		if !ok || (se.Sel.Name != "next" && se.Sel.Name != "prev") {
			return false
		}
		sel := info.Selections[se]
		return sel != nil && sel.Kind() == types.FieldVal && shortTypeName(typeName(sel.Recv())) == "listElement"
	}
	type facts struct {
		fd              *ast.FuncDecl
		links, inc, dec bool
		calls           []*types.Func
	}
	fs := map[*types.Func]*facts{}
	for _, fd := range p.AllFuncDecls(pkg) {
		if fd.Body == nil || fd.Name.IsExported() || strings.HasSuffix(p.Fset.Position(fd.Pos()).Filename, "_test.go") {
			continue
		}
		fn, _ := info.Defs[fd.Name].(*types.Func)
		if fn == nil {
			continue
		}
		ft := &facts{fd: fd}
		ast.Inspect(fd.Body, func(n ast.Node) bool {
			switch x := n.(type) {
			case *ast.AssignStmt:
				for _, l := range x.Lhs {
					if isElemLink(l) {
						ft.links = true
					}
				}
			case *ast.IncDecStmt:
				if se, ok := ast.Unparen(x.X).(*ast.SelectorExpr); ok && se.Sel.Name == "len" && fieldSel(info, x.X, "len") {
					if sel := info.Selections[se]; sel != nil && shortTypeName(typeName(sel.Recv())) == "list" {
						if x.Tok == token.INC {
							ft.inc = true
						} else {
							ft.dec = true
						}
					}
				}
			case *ast.CallExpr:
				if se, ok := ast.Unparen(x.Fun).(*ast.SelectorExpr); ok && (se.Sel.Name == "Store" || se.Sel.Name == "Swap" || se.Sel.Name == "CompareAndSwap") && isElemLink(se.X) {
					ft.links = true
				}
				if c := staticCallee(info, x); c != nil {
					ft.calls = append(ft.calls, c)
				}
			}
			return true
		})
		fs[fn] = ft
	}
	// transitive closure over unexported helpers
	type eff struct{ links, inc, dec bool }
	memo := map[*types.Func]*eff{}
	var effOf func(fn *types.Func, depth int) eff
	effOf = func(fn *types.Func, depth int) eff {
		if e, ok := memo[fn]; ok {
			return *e
		}
		ft := fs[fn]
		if ft == nil || depth > 6 {
			return eff{}
		}
		e := &eff{ft.links, ft.inc, ft.dec}
		memo[fn] = e
		for _, c := range ft.calls {
			ce := effOf(c, depth+1)
			e.links = e.links || ce.links
			e.inc = e.inc || ce.inc
			e.dec = e.dec || ce.dec
		}
		return *e
	}
	// a primitive works on typed elements; an unexported function that still takes the interface handle
	// (a shared body of two exported operations) is an operation, not a primitive
	takesHandle := func(fn *types.Func) bool {
		sig, _ := fn.Type().(*types.Signature)
		if sig == nil {
			return false
		}
		for i := 0; i < sig.Params().Len(); i++ {
			if shortTypeName(typeName(sig.Params().At(i).Type())) == "ListElement" {
				return true
			}
		}
		return false
	}
	calledByPrim := map[*types.Func]bool{}
	for fn, ft := range fs {
		if !effOf(fn, 0).links || takesHandle(fn) {
			continue
		}
		out.splice[fn] = true
		for _, c := range ft.calls {
			if c != fn && fs[c] != nil {
				calledByPrim[c] = true
			}
		}
	}
	pick := func(role string, pred func(fn *types.Func, ft *facts) bool) {
		var cands []*ast.FuncDecl
		for fn, ft := range fs {
			if out.splice[fn] && pred(fn, ft) {
				cands = append(cands, ft.fd)
			}
		}
		if len(cands) == 1 {
			out.byRole[role] = cands[0]
			return
		}
		var names []string
		for _, c := range cands {
			names = append(names, c.Name.Name)
		}
		sort.Strings(names)
		out.why[role] = fmt.Sprintf(" (candidates for the %s role: %v)", role, names)
	}
	pick("insert", func(fn *types.Func, ft *facts) bool { return ft.inc })
	pick("remove", func(fn *types.Func, ft *facts) bool { return ft.dec })
	pick("move", func(fn *types.Func, ft *facts) bool {
		e := effOf(fn, 0)
		return !e.inc && !e.dec && !calledByPrim[fn]
	})
	return out
}
