package main

import (
	"fmt"
	"go/ast"
	"go/parser"
	"go/token"
	"go/types"
	"os"
	"os/exec"
	"path/filepath"
	"sort"
	"strings"
)

func init() {
	register(&property{
		ID:  "C10",
		Run: runC10,
		Meta: propMeta{
			Explanation: "Static clauses of ds.List on all CFG paths: (1) handle validation: every ListElement parameter of the nine handle-taking methods is type-asserted, and every splice (insert/insertValue/move/remove) whose argument derives from a handle is dominated by the edge on which that handle's list pointer equals the receiver; splice arguments derive only from validated handles or the sentinel; (2) bookkeeping: len and the element's list pointer change only in insert/remove/Init, and insert/remove change both on every path; (3) the pointer-splice effect sequences of insert/remove/move agree, after normalising atomic Load/Store to field access, with those extracted by the same extractor from $GOROOT/src/container/list (the reference the property names); (4) the thread-safe decorator declares every List method itself, takes the write lock for the 12 mutators and at least the read lock for readers, forwards to the same-named method with its parameters in order, releases on all exits, and never uses a List parameter while holding its own mutex (self-deadlock / AB-BA).",
			NotDecided:  "equality with container/list over operation histories (follows only informally from the clauses); behaviour of foreign ListElement implementations",
			Assumptions: []string{"$GOROOT/src/container/list/list.go is the reference implementation", "atomic.Pointer Load/Store behave as plain field access under the list's own synchronisation"},
		},
	})
}

var listMutators = []string{"Init", "PushFront", "PushBack", "Remove", "InsertBefore", "InsertAfter", "MoveToFront", "MoveToBack", "MoveBefore", "MoveAfter", "PushBackList", "PushFrontList"}

func runC10(c *Ctx) {
	p := c.Load("ds")
	if p == nil {
		return
	}
	r := c.R
	const pkg = "ds"
	pk := p.Pkg(pkg)
	info := pk.TypesInfo

	// ---- (1) handle validation
	isSplice := func(name string) bool {
		return name == "insert" || name == "insertValue" || name == "move" || name == "remove"
	}
	nHandleMethods := 0
	for _, fd := range p.Methods(pkg, "list") {
		if fd.Body == nil {
			continue
		}
		var handleParams []types.Object
		for _, po := range paramObjs(info, fd) {
			if po != nil && shortTypeName(typeName(po.Type())) == "ListElement" {
				handleParams = append(handleParams, po)
			}
		}
		if len(handleParams) == 0 {
			continue
		}
		nHandleMethods++
		fkey := funcKey(pkg, fd)
		f := newFuncCFG(p, info, fd.Body, fkey)
		recvName := fd.Recv.List[0].Names[0].Name
		typedOf := map[types.Object]types.Object{} // param -> typed variable
		paramOfTyped := map[types.Object]types.Object{}
		ast.Inspect(fd.Body, func(n ast.Node) bool {
			as, ok := n.(*ast.AssignStmt)
			if !ok || len(as.Rhs) != 1 || len(as.Lhs) < 1 {
				return true
			}
			ta, ok := ast.Unparen(as.Rhs[0]).(*ast.TypeAssertExpr)
			if !ok || ta.Type == nil {
				return true
			}
			if po := objOfIdent(info, ta.X); po != nil {
				if tv := objOfIdent(info, as.Lhs[0]); tv != nil && shortTypeName(typeName(tv.Type())) == "listElement" {
					typedOf[po] = tv
					paramOfTyped[tv] = po
				}
			}
			return true
		})
		for _, hp := range handleParams {
			key := fmt.Sprintf("%s param %s", fkey, hp.Name())
			tv := typedOf[hp]
			if tv == nil {
				r.Fail("handle/validated", key, p.posStr(fd.Pos()), "the handle parameter is never type-asserted to *listElement, so its list pointer is never compared with the receiver: a removed or foreign handle is spliced into this list (or the parameter is ignored)")
				continue
			}
			// edges where tv.list.Load() == l holds
			eq := f.RelEdges(func(rel Rel) bool {
				a, b := tv.Name()+".list.Load()", recvName
				return rel.Op == "==" && ((rel.L == a && rel.R == b) || (rel.L == b && rel.R == a))
			})
			if len(eq) == 0 {
				r.Fail("handle/validated", key, p.posStr(fd.Pos()), "no comparison of "+tv.Name()+".list.Load() with the receiver")
				continue
			}
			// every splice using tv must be dominated by eq
			nUse := 0
			ok := true
			for _, pt := range f.Find(func(n ast.Node) bool {
				c, isCall := n.(*ast.CallExpr)
				if !isCall {
					return false
				}
				se, isSel := ast.Unparen(c.Fun).(*ast.SelectorExpr)
				if !isSel || !isSplice(se.Sel.Name) {
					return false
				}
				for _, a := range c.Args {
					if rootObj(info, a) == tv || mentionsObj(info, []ast.Expr{a}, tv) {
						return true
					}
				}
				return false
			}) {
				nUse++
				if w, only := f.OnlyThroughEdges(pt, eq); !only {
					ok = false
					r.Fail("handle/validated", key, f.PosOf(pt), "a splice using this handle is reachable without establishing that the handle belongs to this list", w...)
				}
			}
			if nUse == 0 {
				r.Fail("handle/validated", key, p.posStr(fd.Pos()), "the validated handle is never used in a splice (the parameter has no effect)")
			} else if ok {
				r.Pass("handle/validated", key, p.posStr(fd.Pos()), fmt.Sprintf("asserted, compared with the receiver, %d splice use(s) dominated by the membership edge", nUse))
			}
		}
		// splice arguments derive only from validated handles or the sentinel
		inspectNoLit(fd.Body, func(n ast.Node) bool {
			c, isCall := n.(*ast.CallExpr)
			if !isCall {
				return true
			}
			se, isSel := ast.Unparen(c.Fun).(*ast.SelectorExpr)
			if !isSel || !isSplice(se.Sel.Name) {
				return true
			}
			for i, a := range c.Args {
				if !strings.HasSuffix(typeName(info.TypeOf(a)), "listElement") {
					continue
				}
				ro := rootObj(info, a)
				okSrc := false
				if ro != nil && paramOfTyped[ro] != nil {
					okSrc = true
				}
				if ro != nil && ro.Name() == recvName && strings.Contains(exprKey(a), ".root") {
					okSrc = true
				}
				key := fmt.Sprintf("%s %s arg %d", fkey, se.Sel.Name, i)
				if okSrc {
					r.Pass("handle/splice-args", key, p.posStr(a.Pos()), exprKey(a)+" derives from a validated handle or the sentinel")
				} else {
					r.Fail("handle/splice-args", key, p.posStr(a.Pos()), exprKey(a)+" is neither derived from a validated handle nor from the sentinel")
				}
			}
			return true
		})
	}
	if nHandleMethods < 7 {
		r.Fail("handle/validated", "ds.list handle-taking methods", "-", fmt.Sprintf("expected at least 7 methods taking element handles, found %d", nHandleMethods))
	}

	// ---- (2) bookkeeping
	type site struct{ fn, what string }
	var sites []site
	for _, fd := range p.Methods(pkg, "list") {
		if fd.Body == nil {
			continue
		}
		ast.Inspect(fd.Body, func(n ast.Node) bool {
			switch x := n.(type) {
			case *ast.IncDecStmt:
				if fieldSel(info, x.X, "len") {
					sites = append(sites, site{fd.Name.Name, "len" + x.Tok.String()})
				}
			case *ast.AssignStmt:
				for _, l := range x.Lhs {
					if fieldSel(info, l, "len") {
						sites = append(sites, site{fd.Name.Name, "len=" + exprKey(x.Rhs[0])})
					}
				}
			case *ast.CallExpr:
				if se, ok := ast.Unparen(x.Fun).(*ast.SelectorExpr); ok && se.Sel.Name == "Store" && fieldSel(info, se.X, "list") && len(x.Args) == 1 {
					v := "recv"
					if isNil(info, x.Args[0]) {
						v = "nil"
					}
					sites = append(sites, site{fd.Name.Name, "list.Store(" + v + ")"})
				}
			}
			return true
		})
	}
	want := map[string]string{"len++": "insert", "len--": "remove", "len=0": "Init", "list.Store(recv)": "insert", "list.Store(nil)": "remove"}
	got := map[string][]string{}
	for _, s := range sites {
		got[s.what] = append(got[s.what], s.fn)
	}
	var whats []string
	for w := range got {
		whats = append(whats, w)
	}
	for w := range want {
		if _, ok := got[w]; !ok {
			whats = append(whats, w)
		}
	}
	sort.Strings(whats)
	for _, w := range whats {
		key := "ds.list " + w
		fns := got[w]
		if wf, ok := want[w]; ok && len(fns) == 1 && fns[0] == wf {
			r.Pass("bookkeeping/sites", key, "-", "only in "+wf)
		} else if ok {
			r.Fail("bookkeeping/sites", key, "-", fmt.Sprintf("must occur exactly once, in %s; found in %v", wf, fns))
		} else {
			r.Fail("bookkeeping/sites", key, "-", fmt.Sprintf("unexpected modification of len / element.list in %v", fns))
		}
	}

	// ---- (3) splice shape vs container/list
	checkSpliceShape(r, p)

	// ---- (4) decorator
	checkOverride(r, p, "decorator/declares-all", pkg, "threadSafeList", "List")
	checkGuards(r, p, "lock/guarded-by", []GuardRow{{Pkg: pkg, Type: "threadSafeList", Mutex: "mutex", Fields: []string{"list"},
		Mutators: map[string][]string{"list": listMutators}}})
	checkLockBalance(r, p, "lock/balance", []string{pkg}, nil, func(k string) bool { return hasPrefixAny(k, "ds.threadSafeList.") })
	checkForwarding(r, p, "fwd/delegates", fwdOpts{Pkg: pkg, Type: "threadSafeList", Field: "list", MinMethods: 20,
		Skip: map[string]string{"PushBackList": "own rule (no List parameter under the lock)", "PushFrontList": "own rule"}})
	checkNoIfaceParamUnderLock(r, p, pkg, "threadSafeList", "List")
	// the two bulk pushes of the decorator: either delegate to the inner bulk push, or push every value of
	// the snapshot (no early exit from the loop)
	for _, row := range []struct{ m, single string }{{"PushBackList", "PushBack"}, {"PushFrontList", "PushFront"}} {
		fd := p.FuncDecl(pkg, "threadSafeList", row.m)
		key := "ds.threadSafeList." + row.m
		if fd == nil {
			r.Unresolved("bulk/complete", key, "method not found")
			continue
		}
		if len(forwardingCalls(info, fd, "list", row.m)) == 1 {
			r.Pass("bulk/complete", key, p.posStr(fd.Pos()), "delegates to the inner bulk push")
			continue
		}
		ok, early := false, false
		ast.Inspect(fd.Body, func(n ast.Node) bool {
			var body *ast.BlockStmt
			switch x := n.(type) {
			case *ast.RangeStmt:
				body = x.Body
			case *ast.ForStmt:
				body = x.Body
			}
			if body == nil {
				return true
			}
			ast.Inspect(body, func(m ast.Node) bool {
				switch y := m.(type) {
				case *ast.CallExpr:
					if se, isSel := ast.Unparen(y.Fun).(*ast.SelectorExpr); isSel && se.Sel.Name == row.single && fieldSel(info, se.X, "list") {
						ok = true
					}
				case *ast.ReturnStmt:
					early = true
				case *ast.BranchStmt:
					if y.Tok == token.BREAK || y.Tok == token.GOTO {
						early = true
					}
				}
				return true
			})
			return true
		})
		if ok && !early {
			r.Pass("bulk/complete", key, p.posStr(fd.Pos()), "pushes every value of the snapshot with "+row.single)
		} else {
			r.Fail("bulk/complete", key, p.posStr(fd.Pos()), "the bulk push must insert every element of the other list (loop with "+row.single+", no early exit)")
		}
	}
}

// checkOverride: every method of interface iface is declared on typ itself (not promoted
// from an embedded field).
func checkOverride(r *Reporter, p *Prog, rule, pkg, typ, iface string) {
	pk := p.Pkg(pkg)
	io := pk.Types.Scope().Lookup(iface)
	to := pk.Types.Scope().Lookup(typ)
	if io == nil || to == nil {
		r.Unresolved(rule, pkg+"."+typ, "type or interface not found")
		return
	}
	it, _ := io.Type().Underlying().(*types.Interface)
	if it == nil {
		r.Unresolved(rule, pkg+"."+iface, "not an interface")
		return
	}
	declared := map[string]bool{}
	for _, fd := range p.Methods(pkg, typ) {
		declared[fd.Name.Name] = true
	}
	n := 0
	for i := 0; i < it.NumMethods(); i++ {
		m := it.Method(i).Name()
		n++
		key := pkg + "." + typ + "." + m
		if declared[m] {
			r.Pass(rule, key, "-", "declared on the decorator")
		} else {
			r.Fail(rule, key, "-", "method "+m+" of "+iface+" is not declared on "+typ+": calls fall through to the embedded, unsynchronised implementation")
		}
	}
	if n == 0 {
		r.Fail(rule, pkg+"."+iface, "-", "interface has no methods (vacuous)")
	}
}

// checkNoIfaceParamUnderLock: while a method of typ holds any mutex, a parameter whose type is
// the interface iface (which typ implements) must not be used.
func checkNoIfaceParamUnderLock(r *Reporter, p *Prog, pkg, typ, iface string) {
	info := p.Pkg(pkg).TypesInfo
	n := 0
	for _, fd := range p.Methods(pkg, typ) {
		if fd.Body == nil {
			continue
		}
		var ps []types.Object
		for _, po := range paramObjs(info, fd) {
			if po != nil && shortTypeName(typeName(po.Type())) == iface {
				ps = append(ps, po)
			}
		}
		if len(ps) == 0 {
			continue
		}
		n++
		fkey := funcKey(pkg, fd)
		var bad []string
		seen := map[ast.Node]bool{}
		AnalyzeLocks(fd.Body, LockSet{}, &FlowOpts{Info: info}, func(nd ast.Node, stack []ast.Node, held LockSet) {
			id, ok := nd.(*ast.Ident)
			if !ok || seen[id] || len(held) == 0 {
				return
			}
			for _, po := range ps {
				if info.Uses[id] == po {
					seen[id] = true
					bad = append(bad, fmt.Sprintf("%s: parameter %s (an arbitrary %s, possibly this very list or one locked in the opposite order) is used while holding %s", p.posStr(id.Pos()), id.Name, iface, held))
				}
			}
		})
		if len(bad) > 0 {
			r.Fail("lock/no-list-param-under-lock", fkey, p.posStr(fd.Pos()), bad[0], bad...)
		} else {
			r.Pass("lock/no-list-param-under-lock", fkey, p.posStr(fd.Pos()), "the other list is only used before the own mutex is taken")
		}
	}
	if n < 2 {
		r.Fail("lock/no-list-param-under-lock", pkg+"."+typ, "-", fmt.Sprintf("expected two methods taking a %s, found %d", iface, n))
	}
}

// ---- splice effect sequences --------------------------------------------------------------

func normPath(e ast.Expr) string {
	switch x := ast.Unparen(e).(type) {
	case *ast.Ident:
		return x.Name
	case *ast.SelectorExpr:
		return normPath(x.X) + "." + x.Sel.Name
	case *ast.CallExpr:
		if se, ok := ast.Unparen(x.Fun).(*ast.SelectorExpr); ok && se.Sel.Name == "Load" && len(x.Args) == 0 {
			return normPath(se.X)
		}
	case *ast.UnaryExpr:
		if x.Op == token.AND {
			return "&" + normPath(x.X)
		}
	}
	return "?" + exprKey(e)
}

// spliceEffects returns (ordered pointer stores, set of bookkeeping effects, guards).
func spliceEffects(body *ast.BlockStmt) (ptr []string, book []string) {
	for _, st := range body.List {
		switch x := st.(type) {
		case *ast.AssignStmt:
			if len(x.Lhs) == 1 && len(x.Rhs) == 1 {
				eff := normPath(x.Lhs[0]) + " = " + normPath(x.Rhs[0])
				if strings.HasSuffix(normPath(x.Lhs[0]), ".next") || strings.HasSuffix(normPath(x.Lhs[0]), ".prev") {
					ptr = append(ptr, eff)
				} else {
					book = append(book, eff)
				}
			}
		case *ast.ExprStmt:
			if c, ok := x.X.(*ast.CallExpr); ok {
				if se, ok := ast.Unparen(c.Fun).(*ast.SelectorExpr); ok && se.Sel.Name == "Store" && len(c.Args) == 1 {
					eff := normPath(se.X) + " = " + normPath(c.Args[0])
					if strings.HasSuffix(normPath(se.X), ".next") || strings.HasSuffix(normPath(se.X), ".prev") {
						ptr = append(ptr, eff)
					} else {
						book = append(book, eff)
					}
					continue
				}
			}
			ptr = append(ptr, "?stmt "+exprKey(x.X))
		case *ast.IncDecStmt:
			book = append(book, normPath(x.X)+x.Tok.String())
		case *ast.IfStmt:
			if len(x.Body.List) == 1 {
				if _, isRet := x.Body.List[0].(*ast.ReturnStmt); isRet && x.Else == nil && x.Init == nil {
					ptr = append(ptr, "if "+exprKey(x.Cond)+" return")
					continue
				}
			}
			ptr = append(ptr, "?if")
		case *ast.ReturnStmt:
		default:
			ptr = append(ptr, fmt.Sprintf("?%T", st))
		}
	}
	sort.Strings(book)
	return
}

func checkSpliceShape(r *Reporter, p *Prog) {
	goroot := os.Getenv("GOROOT")
	if out, err := exec.Command("go", "env", "GOROOT").Output(); err == nil && strings.TrimSpace(string(out)) != "" {
		goroot = strings.TrimSpace(string(out))
	}
	refFile := filepath.Join(goroot, "src", "container", "list", "list.go")
	fset := token.NewFileSet()
	ref, err := parser.ParseFile(fset, refFile, nil, 0)
	if err != nil {
		r.Unresolved("splice/agrees-with-container-list", "container/list", "cannot parse reference "+refFile+": "+err.Error())
		return
	}
	refBodies := map[string]*ast.BlockStmt{}
	for _, d := range ref.Decls {
		if fd, ok := d.(*ast.FuncDecl); ok && fd.Recv != nil && fd.Body != nil {
			refBodies[fd.Name.Name] = fd.Body
		}
	}
	for _, name := range []string{"insert", "remove", "move"} {
		key := "ds.list." + name
		fd := p.FuncDecl("ds", "list", name)
		rb := refBodies[name]
		if fd == nil || rb == nil {
			r.Unresolved("splice/agrees-with-container-list", key, "function or reference not found")
			continue
		}
		gp, gb := spliceEffects(fd.Body)
		wp, wb := spliceEffects(rb)
		if strings.Join(gp, "; ") == strings.Join(wp, "; ") && strings.Join(gb, "; ") == strings.Join(wb, "; ") {
			r.Pass("splice/agrees-with-container-list", key, p.posStr(fd.Pos()), fmt.Sprintf("%d pointer stores in the reference order, bookkeeping %v", len(gp), gb))
		} else {
			r.Fail("splice/agrees-with-container-list", key, p.posStr(fd.Pos()), fmt.Sprintf("effect sequence differs from container/list.%s: got [%s | %s], reference [%s | %s]", name, strings.Join(gp, "; "), strings.Join(gb, "; "), strings.Join(wp, "; "), strings.Join(wb, "; ")))
		}
	}
}
