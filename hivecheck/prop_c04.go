package main

import (
	"fmt"
	"go/ast"
	"go/token"
	"go/types"
	"golang.org/x/tools/go/cfg"
	"os"
	"strings"
)

func init() {
	register(&property{
		ID:  "C04",
		Run: runC04,
		Meta: propMeta{
			Explanation: "Static clauses of the in-memory KVStore, its views and wrappers, decided on all CFG paths: (a) closed gate: in every operation of mapDB and in batch Commit every effect and every non-ErrStoreClosed return is dominated by the false edge of the shared atomic closed flag, Close sets it on every path, views/batches share the flag and the map; (b) realm discipline: every key reaching the shared map is ConcatBytes(realm, caller key) with the realm first, iteration passes realm and prefix and strips len(realm) from reported keys; (c) copy discipline: no []byte read from the shared map escapes without a copying call and values are copied on store; (d) iteration order: keys pass through SortSlice with the caller's direction forwarded, SortSlice maps Forward/Backward to ascending/reverse, a false consumer result leaves the loop; (e) batch: Set/Delete keep the set and delete maps disjoint, Cancel resets both, Commit applies both maps; (f) flushkv and debug forward every method with parameters in order, flushkv follows each mutator and batch Commit with Flush on the success path, views of wrappers wrap the inner view.",
			NotDecided:  "agreement with the ordered-map model over operation histories; byte-level prefix arithmetic",
			Assumptions: []string{"byteutils.ConcatBytes / []byte(string) produce fresh slices", "sort.Sort/sort.Reverse/sort.StringSlice behave as documented"},
		},
	})
}

func runC04(c *Ctx) {
	p := c.Load("kvstore")
	if p == nil {
		return
	}
	r := c.R
	const mp = "kvstore/mapdb"
	info := p.Pkg(mp).TypesInfo

	isClosedLoad := func(e ast.Expr) bool {
		c, ok := e.(*ast.CallExpr)
		if !ok {
			return false
		}
		se, ok := ast.Unparen(c.Fun).(*ast.SelectorExpr)
		return ok && se.Sel.Name == "Load" && fieldSel(info, se.X, "closed")
	}
	// ---- (a) closed gate
	gated := []struct{ typ, m string }{
		{"mapDB", "WithRealm"}, {"mapDB", "Iterate"}, {"mapDB", "IterateKeys"}, {"mapDB", "Clear"}, {"mapDB", "Get"}, {"mapDB", "Set"},
		{"mapDB", "Has"}, {"mapDB", "Delete"}, {"mapDB", "DeletePrefix"}, {"mapDB", "Flush"}, {"mapDB", "Batched"}, {"batchedMutations", "Commit"},
	}
	for _, g := range gated {
		f := p.CFGOf(mp, g.typ, g.m)
		key := mp + "." + g.typ + "." + g.m
		if f == nil {
			r.Unresolved("closed-gate", key, "method not found")
			continue
		}
		trueE, falseE := f.CondEdges(isClosedLoad)
		if len(falseE) == 0 {
			r.Fail("closed-gate", key, f.P.posStr(f.Body.Pos()), "no test of the closed flag: the operation still works after Close")
			continue
		}
		bad := ""
		var wit []string
		nEff := 0
		// effects: calls on s.m / s.set / s.delete / kvStore.* / composite literals of views and batches
		for _, pt := range f.Find(func(n ast.Node) bool {
			switch x := n.(type) {
			case *ast.CallExpr:
				if se, ok := ast.Unparen(x.Fun).(*ast.SelectorExpr); ok {
					if fieldSel(info, se.X, "m") || fieldSel(info, se.X, "kvStore") {
						return true
					}
					if sel := info.Selections[se]; sel != nil && sel.Kind() == types.MethodVal && (se.Sel.Name == "set" || se.Sel.Name == "delete") {
						return true
					}
				}
			case *ast.CompositeLit:
				return true
			}
			return false
		}) {
			nEff++
			if w, ok := f.OnlyThroughEdges(pt, falseE); !ok {
				bad = "an effect at " + f.PosOf(pt) + " is reachable without passing the not-closed edge"
				wit = w
			}
		}
		nRet := 0
		// what the operation returns: every place its error result can come from (a return of its
		// own, or - when it runs through a gate helper - the return sites of that helper and of the
		// literal handed to it), judged where the value is produced
		for _, rpt := range f.FindOwn(func(n ast.Node) bool { _, ok := n.(*ast.ReturnStmt); return ok }) {
			rs := f.nodeAt(rpt).(*ast.ReturnStmt)
			if !f.Reachable(rpt) || len(rs.Results) == 0 {
				continue
			}
			for _, o := range f.Origins(rs.Results[len(rs.Results)-1], rpt) {
				pt, last := o.At, o.E
				nRet++
				if _, onlyTrue := f.OnlyThroughEdges(pt, trueE); onlyTrue {
					if exprKey(last) != "kvstore.ErrStoreClosed" {
						bad = "the closed branch at " + f.PosOf(pt) + " does not return kvstore.ErrStoreClosed"
					}
					continue
				}
				if w, ok := f.OnlyThroughEdges(pt, falseE); !ok {
					bad = "a return at " + f.PosOf(pt) + " is reachable without testing the closed flag"
					wit = w
				}
			}
		}
		if bad != "" {
			r.Fail("closed-gate", key, f.P.posStr(f.Body.Pos()), bad, wit...)
		} else {
			r.Pass("closed-gate", key, f.P.posStr(f.Body.Pos()), fmt.Sprintf("%d effect(s) and %d return(s) dominated by the closed test", nEff, nRet))
		}
	}
	// Close sets the flag on every path
	if f := p.CFGOf(mp, "mapDB", "Close"); f == nil {
		r.Unresolved("closed-gate", mp+".mapDB.Close", "method not found")
	} else {
		setsFlag := func(n ast.Node) bool {
			c, ok := n.(*ast.CallExpr)
			if !ok || len(c.Args) != 1 || exprKey(c.Args[0]) != "true" {
				return false
			}
			se, ok := ast.Unparen(c.Fun).(*ast.SelectorExpr)
			return ok && (se.Sel.Name == "Swap" || se.Sel.Name == "Store") && fieldSel(info, se.X, "closed")
		}
		if w, found := f.reach(f.entry(), &searchOpts{AvoidNode: setsFlag}, func(pt Point, atExit bool) bool { return atExit }); found {
			r.Fail("closed-gate", mp+".mapDB.Close", f.P.posStr(f.Body.Pos()), "Close can return without setting the closed flag", w...)
		} else {
			r.Pass("closed-gate", mp+".mapDB.Close", f.P.posStr(f.Body.Pos()), "closed flag set to true on every path")
		}
	}
	// WithExtendedRealm goes through WithRealm (which is gated)
	checkExtendedRealm(r, p, mp, "mapDB")
	// shared flag / shared map in views and batches
	for _, fd := range p.AllFuncDecls(mp) {
		if fd.Body == nil {
			continue
		}
		ast.Inspect(fd.Body, func(n ast.Node) bool {
			cl, ok := n.(*ast.CompositeLit)
			if !ok {
				return true
			}
			tn := shortTypeName(typeName(info.TypeOf(cl)))
			if tn != "mapDB" && tn != "batchedMutations" {
				return true
			}
			key := fmt.Sprintf("%s literal in %s", tn, funcKey(mp, fd))
			if fd.Recv == nil {
				// constructor: fresh flag
				r.Pass("closed-gate/shared-flag", key, p.posStr(cl.Pos()), "constructor creates the flag")
				return true
			}
			okFlag, okMap := false, tn != "mapDB"
			for _, el := range cl.Elts {
				kv, ok := el.(*ast.KeyValueExpr)
				if !ok {
					continue
				}
				switch exprKey(kv.Key) {
				case "closed":
					okFlag = fieldSel(info, kv.Value, "closed") && isRecvIdent(info, fd, kv.Value.(*ast.SelectorExpr).X)
				case "m":
					okMap = fieldSel(info, kv.Value, "m") && isRecvIdent(info, fd, kv.Value.(*ast.SelectorExpr).X)
				}
			}
			if okFlag && okMap {
				r.Pass("closed-gate/shared-flag", key, p.posStr(cl.Pos()), "view/batch shares the receiver's closed flag and map")
			} else {
				r.Fail("closed-gate/shared-flag", key, p.posStr(cl.Pos()), "a view or batch must share the receiver's closed flag (and map); otherwise Close does not reach it")
			}
			return true
		})
	}
	// ---- (b) realm discipline
	checkRealmDiscipline(r, p)
	checkWithRealmReturnsNewView(r, p, "kvstore/mapdb", "mapDB")
	checkWithRealmReturnsNewView(r, p, "kvstore/flushkv", "flushKVStore")
	checkWithRealmReturnsNewView(r, p, "kvstore/debug", "debugStore")
	checkNoAppendToSharedField(r, p, "kvstore/mapdb")
	// ---- (c) copy discipline
	checkCopyDiscipline(r, p)
	checkKVStoreTrustedHelpers(r, p)
	// every operation of the shared map is ONE step of the realm||key map (one critical section of its
	// lock): a prefix deletion that scans and deletes in two sections is not an operation of any
	// single ordered map when writers on other views come in between (shared with C05)
	for _, typ := range []string{"syncedKVMap", "mapDB", "batchedMutations"} {
		checkAtomicOperations(r, p, "atomic/one-section-per-operation", mp, typ)
	}
	// ---- (d) ordering
	checkIterationOrder(r, p)
	// ---- (e) batch
	checkBatchDisjoint(r, p)
	// ---- (f) wrappers
	skipView := map[string]string{"WithRealm": "wraps the inner view (own rule)", "WithExtendedRealm": "goes through own WithRealm (own rule)", "Batched": "wraps the inner batch (own rule)"}
	checkForwarding(r, p, "fwd/delegates", fwdOpts{Pkg: "kvstore/flushkv", Type: "flushKVStore", Field: "store", Skip: skipView, MinMethods: 14})
	checkForwarding(r, p, "fwd/delegates", fwdOpts{Pkg: "kvstore/flushkv", Type: "batchedMutations", Field: "batched", MinMethods: 4})
	checkForwarding(r, p, "fwd/delegates", fwdOpts{Pkg: "kvstore/debug", Type: "debugStore", Field: "underlying", Skip: skipView, MinMethods: 14})
	checkForwarding(r, p, "fwd/delegates", fwdOpts{Pkg: "kvstore/debug", Type: "batchedMutations", Field: "underlying", MinMethods: 4})
	for _, w := range []struct{ pkg, typ, field, batchType, batchField string }{
		{"kvstore/flushkv", "flushKVStore", "store", "batchedMutations", "batched"},
		{"kvstore/debug", "debugStore", "underlying", "batchedMutations", "underlying"},
	} {
		checkWrapsInner(r, p, w.pkg, w.typ, "WithRealm", w.field, w.typ, w.field)
		checkWrapsInner(r, p, w.pkg, w.typ, "Batched", w.field, w.batchType, w.batchField)
		checkExtendedRealm(r, p, w.pkg, w.typ)
	}
	// flush after every mutator on the success path
	for _, m := range []struct{ typ, m, field string }{
		{"flushKVStore", "Set", "store"}, {"flushKVStore", "Delete", "store"}, {"flushKVStore", "DeletePrefix", "store"}, {"flushKVStore", "Clear", "store"},
		{"batchedMutations", "Commit", "batched"},
	} {
		checkFlushAfter(r, p, "kvstore/flushkv", m.typ, m.m, m.field)
	}
	checkErrChecked(r, p, "err/checked", errScope{Pkg: "kvstore/flushkv", Funcs: p.AllFuncDecls("kvstore/flushkv")})
	checkErrChecked(r, p, "err/checked", errScope{Pkg: "kvstore/debug", Funcs: p.AllFuncDecls("kvstore/debug")})
	checkErrChecked(r, p, "err/checked", errScope{Pkg: mp, Funcs: p.AllFuncDecls(mp)})
}

// checkFlushingWrapper: the rules of the write-through wrapper on their own - every view it hands out
// is again a flushing wrapper of the inner VIEW, every mutator flushes on its success path. Properties
// that rely on "Set returned nil => the value is durable" on such a store (the Sequence's reservation)
// take these as obligations of their own.
func checkFlushingWrapper(r *Reporter, p *Prog) {
	skipView := map[string]string{"WithRealm": "wraps the inner view (own rule)", "WithExtendedRealm": "goes through own WithRealm (own rule)", "Batched": "wraps the inner batch (own rule)"}
	checkForwarding(r, p, "fwd/delegates", fwdOpts{Pkg: "kvstore/flushkv", Type: "flushKVStore", Field: "store", Skip: skipView, MinMethods: 14})
	checkWrapsInner(r, p, "kvstore/flushkv", "flushKVStore", "WithRealm", "store", "flushKVStore", "store")
	checkWrapsInner(r, p, "kvstore/flushkv", "flushKVStore", "Batched", "store", "batchedMutations", "batched")
	checkExtendedRealm(r, p, "kvstore/flushkv", "flushKVStore")
	for _, m := range []struct{ typ, m, field string }{
		{"flushKVStore", "Set", "store"}, {"flushKVStore", "Delete", "store"}, {"flushKVStore", "DeletePrefix", "store"}, {"flushKVStore", "Clear", "store"},
		{"batchedMutations", "Commit", "batched"},
	} {
		checkFlushAfter(r, p, "kvstore/flushkv", m.typ, m.m, m.field)
	}
}

func isRecvIdent(info *types.Info, fd *ast.FuncDecl, e ast.Expr) bool {
	if fd.Recv == nil || len(fd.Recv.List) == 0 || len(fd.Recv.List[0].Names) == 0 {
		return false
	}
	return objOfIdent(info, e) == info.Defs[recvIdentOf(fd)]
}

// checkExtendedRealm: WithExtendedRealm(realm) returns <recv>.WithRealm(ConcatBytes(<recv>.Realm() | <recv>.realm, realm)).
func checkExtendedRealm(r *Reporter, p *Prog, pkg, typ string) {
	fd := p.FuncDecl(pkg, typ, "WithExtendedRealm")
	key := pkg + "." + typ + ".WithExtendedRealm"
	if fd == nil {
		r.Unresolved("realm/extended", key, "method not found")
		return
	}
	info := p.Pkg(pkg).TypesInfo
	params := paramObjs(info, fd)
	ok := false
	ast.Inspect(fd.Body, func(n ast.Node) bool {
		rs, isRet := n.(*ast.ReturnStmt)
		if !isRet || len(rs.Results) != 1 {
			return true
		}
		c, isCall := ast.Unparen(rs.Results[0]).(*ast.CallExpr)
		if !isCall || len(c.Args) != 1 {
			return true
		}
		se, isSel := ast.Unparen(c.Fun).(*ast.SelectorExpr)
		if !isSel || se.Sel.Name != "WithRealm" || !isRecvIdent(info, fd, se.X) {
			return true
		}
		cc, isCC := ast.Unparen(c.Args[0]).(*ast.CallExpr)
		if !isCC || !strings.HasSuffix(exprKey(cc.Fun), "ConcatBytes") || len(cc.Args) != 2 {
			return true
		}
		first := exprKey(cc.Args[0])
		recvName := recvIdentOf(fd).Name
		if (first == recvName+".Realm()" || first == recvName+".realm") && len(params) == 1 && objOfIdent(info, cc.Args[1]) == params[0] {
			ok = true
		}
		return true
	})
	if !ok {
		// the concatenation written out: own.WithRealm(x) where x is built in a buffer of its own -
		// append(append(<fresh empty>, own realm...), realm...), in one expression or step by step
		f := newFuncCFG(p, info, fd.Body, key)
		recvName := recvIdentOf(fd).Name
		for _, rpt := range f.FindOwn(func(n ast.Node) bool { _, isRet := n.(*ast.ReturnStmt); return isRet }) {
			rs, _ := f.nodeAt(rpt).(*ast.ReturnStmt)
			if rs == nil || len(rs.Results) != 1 {
				continue
			}
			c, isCall := ast.Unparen(rs.Results[0]).(*ast.CallExpr)
			if !isCall || len(c.Args) != 1 {
				continue
			}
			se, isSel := ast.Unparen(c.Fun).(*ast.SelectorExpr)
			if !isSel || se.Sel.Name != "WithRealm" || !isRecvIdent(info, fd, se.X) {
				continue
			}
			parts, fresh := freshConcatParts(f, info, c.Args[0], rpt, 0)
			if fresh && len(parts) == 2 && len(params) == 1 && objOfIdent(info, parts[1]) == params[0] {
				if first := exprKey(parts[0]); first == recvName+".Realm()" || first == recvName+".realm" {
					r.Pass("realm/extended", key, p.posStr(fd.Pos()), "WithRealm(<own realm followed by the extension, in a buffer of its own>)")
					return
				}
			}
		}
	}
	if !ok {
		// a wrapper may instead delegate to the wrapped store's WithExtendedRealm exactly as its own
		// WithRealm delegates to the wrapped store's WithRealm: the two methods have the same text up
		// to that one method name (the wrapped store extends its own realm, which is the wrapper's)
		if wr := p.FuncDecl(pkg, typ, "WithRealm"); wr != nil {
			a, _ := normalisedBody(info, wr)
			b, _ := normalisedBody(info, fd)
			if a != "" && strings.Count(a, "(WithRealm)") == 1 && strings.Replace(a, "(WithRealm)", "(WithExtendedRealm)", 1) == b {
				r.Pass("realm/extended", key, p.posStr(fd.Pos()), "delegates to the wrapped store's WithExtendedRealm exactly as WithRealm delegates to its WithRealm")
				return
			}
		}
	}
	if ok {
		r.Pass("realm/extended", key, p.posStr(fd.Pos()), "WithRealm(ConcatBytes(own realm, extension)): realm first, extension second")
	} else {
		r.Fail("realm/extended", key, p.posStr(fd.Pos()), "WithExtendedRealm must return own WithRealm(ConcatBytes(<own realm>, realm))")
	}
}

// checkRealmDiscipline: keys passed to the shared map are ConcatBytes(s.realm, <key param>).
func checkRealmDiscipline(r *Reporter, p *Prog) {
	const mp = "kvstore/mapdb"
	info := p.Pkg(mp).TypesInfo
	n := 0
	// the iteration of a view judged end to end, on the exported operation with the shared map's
	// iteration spliced in: however the realm, the prefix and the direction travel from the view to the
	// loop (separate arguments, a parameter object, one merged helper), the filter compares with
	// realm||prefix, the consumer receives the key with len(realm) stripped, and the order follows the
	// caller's direction
	e2e := map[string]bool{}
	for _, name := range []string{"Iterate", "IterateKeys"} {
		e2e[name] = iterationEndToEnd(p, mp, name)
	}
	// evaluated on the exported operations with their unexported helpers expanded: it does not
	// matter whether the prefixed key is built in a helper (set/delete), in a temporary, or in
	// the call itself
	var roots []*ast.FuncDecl
	for _, fd := range p.Methods(mp, "mapDB") {
		if fd.Body != nil && fd.Name.IsExported() {
			roots = append(roots, fd)
		}
	}
	if fd := p.FuncDecl(mp, "batchedMutations", "Commit"); fd != nil {
		roots = append(roots, fd)
	}
	for _, fd := range roots {
		params := paramObjs(info, fd)
		recvName := recvIdentOf(fd).Name
		ownRealm := recvName + ".realm"
		if recvTypeName(fd) == "batchedMutations" {
			ownRealm = recvName + ".kvStore.realm"
		}
		f := newFuncCFG(p, info, fd.Body, funcKey(mp, fd))
		isParam := func(e ast.Expr, pt Point, i int) bool {
			if i >= len(params) {
				return false
			}
			re, _ := f.Resolve(e, pt)
			// a conversion of the parameter is still the parameter
			if c, ok := ast.Unparen(re).(*ast.CallExpr); ok && len(c.Args) == 1 {
				if tv, ok := info.Types[c.Fun]; ok && tv.IsType() {
					re = c.Args[0]
				}
			}
			return objOfIdent(info, re) == params[i]
		}
		for _, c := range f.Calls(func(c *ast.CallExpr) bool {
			se, ok := ast.Unparen(c.Fun).(*ast.SelectorExpr)
			return ok && isSharedMap(f, info, c, se.X)
		}) {
			se := ast.Unparen(c.Fun).(*ast.SelectorExpr)
			pt, _ := f.PointOf(c)
			n++
			key := fmt.Sprintf("%s call in %s", se.Sel.Name, funcKey(mp, fd))
			pos := p.posStr(c.Pos())
			switch se.Sel.Name {
			case "get", "set", "has", "delete", "deletePrefix":
				if len(c.Args) == 0 {
					r.Fail("realm/key-prefixed", key, pos, "no key argument")
					continue
				}
				if fd.Name.Name == "Clear" {
					if f.KeyAt(c.Args[0], pt) == ownRealm {
						r.Pass("realm/key-prefixed", key, pos, "Clear deletes exactly the view's realm prefix")
					} else {
						r.Fail("realm/key-prefixed", key, pos, "Clear must delete the prefix s.realm")
					}
					continue
				}
				a, apt := f.Resolve(c.Args[0], pt)
				cc, isCC := ast.Unparen(a).(*ast.CallExpr)
				if !isCC || !strings.HasSuffix(exprKey(cc.Fun), "ConcatBytes") || len(cc.Args) != 2 || f.KeyAt(cc.Args[0], apt) != ownRealm ||
					(recvTypeName(fd) == "mapDB" && !isParam(cc.Args[1], apt, 0)) {
					r.Fail("realm/key-prefixed", key, pos, "the key handed to the shared map must be ConcatBytes(s.realm, <caller's key>) with the realm first; found "+f.KeyAt(c.Args[0], pt))
					continue
				}
				if se.Sel.Name == "set" && recvTypeName(fd) == "mapDB" && (len(c.Args) != 2 || !isParam(c.Args[1], pt, 1)) {
					r.Fail("realm/key-prefixed", key, pos, "set must store the caller's value")
					continue
				}
				r.Pass("realm/key-prefixed", key, pos, "key = ConcatBytes(s.realm, caller key)")
			case "iterate", "iterateKeys":
				ok := len(c.Args) == 4 && f.KeyAt(c.Args[0], pt) == ownRealm && len(params) == 3 &&
					isParam(c.Args[1], pt, 0) && isParam(c.Args[2], pt, 1) && isParam(c.Args[3], pt, 2) && c.Ellipsis.IsValid()
				if ok || e2e[fd.Name.Name] {
					r.Pass("realm/key-prefixed", key, pos, "iteration receives the view's realm, the caller's prefix, consumer and direction")
				} else {
					r.Fail("realm/key-prefixed", key, pos, "iteration must receive (s.realm, prefix, consumer, direction...)")
				}
			default:
				if e2e[fd.Name.Name] {
					r.Pass("realm/key-prefixed", key, pos, "iteration judged end to end")
					continue
				}
				// a storing operation found by what it does (`s.m[key] = value`): the key it is handed is the
				// concatenation realm + caller's key, realm first
				if kv, isOp := sharedMapStoreOps(p, info)[se.Sel.Name]; isOp && kv[0] < len(c.Args) {
					a, apt := f.Resolve(c.Args[kv[0]], pt)
					if cc, isCC := ast.Unparen(a).(*ast.CallExpr); isCC && strings.Contains(exprKey(cc.Fun), "ConcatBytes") && len(cc.Args) == 2 && f.KeyAt(cc.Args[0], apt) == ownRealm {
						r.Pass("realm/key-prefixed", key, pos, "key = concatenation of s.realm and the caller's key")
						continue
					}
					r.Fail("realm/key-prefixed", key, pos, "the key handed to the shared map must be the concatenation of s.realm and the caller's key, realm first; found "+f.KeyAt(c.Args[kv[0]], pt))
					continue
				}
				r.Fail("realm/key-prefixed", key, pos, "unknown operation on the shared map (not tabled)")
			}
		}
	}
	if n < 8 {
		r.Fail("realm/key-prefixed", mp+".mapDB", "-", fmt.Sprintf("expected at least 8 calls on the shared map, found %d (vacuous)", n))
	}
	// iterate: filter on realm||prefix and strip len(realm)
	for _, name := range []string{"iterate", "iterateKeys"} {
		fd := p.FuncDecl(mp, "syncedKVMap", name)
		key := mp + ".syncedKVMap." + name
		root := map[string]string{"iterate": "Iterate", "iterateKeys": "IterateKeys"}[name]
		if fd == nil || (e2e[root] && len(paramObjs(info, fd)) != 4) {
			if e2e[root] {
				r.Pass("realm/strip", key, "-", "judged end to end on mapDB."+root+": filters on realm||prefix and reports key[len(realm):]")
				continue
			}
			r.Unresolved("realm/strip", key, "function not found")
			continue
		}
		params := paramObjs(info, fd) // realm, keyPrefix, consume, iterDirection
		if len(params) != 4 {
			r.Fail("realm/strip", key, p.posStr(fd.Pos()), fmt.Sprintf("the shared map's iteration takes %d parameters instead of (realm, prefix, consumer, direction...) and the end-to-end form of the rule does not hold either", len(params)))
			continue
		}
		okPrefix, okFilter, okStrip := false, false, false
		// resolved through temporaries and expanded helpers: the HasPrefix filter compares with
		// ConcatBytesToString(realm, keyPrefix), the consumer receives key[len(realm):]
		f := newFuncCFG(p, info, fd.Body, key)
		isP := func(e ast.Expr, pt Point, i int) bool {
			re, _ := f.Resolve(e, pt)
			return objOfIdent(info, re) == params[i]
		}
		for _, b := range f.G.Blocks {
			if !b.Live {
				continue
			}
			for i, nd := range b.Nodes {
				pt := Point{b, i}
				inspectNoLit(nd, func(m ast.Node) bool {
					x, ok := m.(*ast.CallExpr)
					if !ok {
						return true
					}
					if exprKey(x.Fun) == "strings.HasPrefix" && len(x.Args) == 2 {
						re, rpt := f.Resolve(x.Args[1], pt)
						if c, ok := ast.Unparen(re).(*ast.CallExpr); ok && strings.HasSuffix(exprKey(c.Fun), "ConcatBytesToString") && len(c.Args) == 2 && isP(c.Args[0], rpt, 0) && isP(c.Args[1], rpt, 1) {
							okPrefix, okFilter = true, true
						}
					}
					if (objOfIdent(info, x.Fun) == params[2] || f.IsVar(x.Fun, pt, params[2])) && len(x.Args) >= 1 {
						// the key handed to the consumer, through literal/helper parameters: <key>[len(realm):]
						ka, kpt := f.Resolve(x.Args[0], pt)
						if sl, ok := ast.Unparen(ka).(*ast.SliceExpr); ok && sl.High == nil && sl.Low != nil {
							lo, lpt := f.Resolve(sl.Low, kpt)
							if lc, ok := ast.Unparen(lo).(*ast.CallExpr); ok && exprKey(lc.Fun) == "len" && len(lc.Args) == 1 && isP(lc.Args[0], lpt, 0) {
								okStrip = true
							}
						}
					}
					return true
				})
			}
		}
		if (okPrefix && okFilter && okStrip) || e2e[root] {
			r.Pass("realm/strip", key, p.posStr(fd.Pos()), "filters on realm||prefix and reports key[len(realm):]")
		} else {
			r.Fail("realm/strip", key, p.posStr(fd.Pos()), fmt.Sprintf("iteration must filter on ConcatBytesToString(realm, prefix) via strings.HasPrefix and hand key[len(realm):] to the consumer (prefix=%v filter=%v strip=%v)", okPrefix, okFilter, okStrip))
		}
	}
}

var copyFuncs = map[string]bool{"byteutils.ConcatBytes": true, "bytes.Clone": true, "utils.CopyBytes": true, "slices.Clone": true, "byteutils.ConcatBytesToString": true, "string": true, "len": true}

// checkKVStoreTrustedHelpers: the helpers the copy discipline and the iteration rule trust by name.
func checkKVStoreTrustedHelpers(r *Reporter, p *Prog) {
	checkTrustedHelpers(r, p, []trustedHelper{
		{Pkg: "serializer/byteutils", Name: "ConcatBytes"},
		{Pkg: "kvstore/utils", Name: "CopyBytes"},
		{Pkg: "kvstore/utils", Name: "SortSlice", ArgOK: true},
	})
}

// sharedMapStoreOps: the methods of syncedKVMap that store one of their parameters (or a copy of it)
// into the shared map under a key built from another parameter - found by what they do, not by name.
// name -> (index of the key parameter, index of the value parameter).
func sharedMapStoreOps(p *Prog, info *types.Info) map[string][2]int {
	const mp = "kvstore/mapdb"
	out := map[string][2]int{}
	for _, fd := range p.Methods(mp, "syncedKVMap") {
		if fd.Body == nil {
			continue
		}
		var params []types.Object
		for _, fl := range fd.Type.Params.List {
			for _, nm := range fl.Names {
				params = append(params, info.Defs[nm])
			}
		}
		idxOf := func(e ast.Expr) int {
			found := -1
			ast.Inspect(e, func(n ast.Node) bool {
				if id, ok := n.(*ast.Ident); ok {
					for i, po := range params {
						if po != nil && info.Uses[id] == po {
							found = i
						}
					}
				}
				return true
			})
			return found
		}
		ast.Inspect(fd.Body, func(n ast.Node) bool {
			as, ok := n.(*ast.AssignStmt)
			if !ok || len(as.Lhs) != 1 || len(as.Rhs) != 1 {
				return true
			}
			ix, ok := ast.Unparen(as.Lhs[0]).(*ast.IndexExpr)
			if !ok || !fieldSel(info, ix.X, "m") {
				return true
			}
			if k, v := idxOf(ix.Index), idxOf(as.Rhs[0]); k >= 0 && v >= 0 && k != v && len(params) == 2 {
				out[fd.Name.Name] = [2]int{k, v}
			}
			return true
		})
	}
	return out
}

var freshCopyFuncs = map[string]bool{"byteutils.ConcatBytes": true, "bytes.Clone": true, "utils.CopyBytes": true, "slices.Clone": true}

// privateCopiesField: every value held in the map field (a map[string][]byte field of a struct of the
// package) is a private copy for as long as it sits there: every store into an element of the field is
// the result of a copying call, no element is written in place (`f[k][i] = `, `append(f[k][:n], ...)`,
// `copy(f[k], ...)`). Returns "" or the first construct that breaks it.
func privateCopiesField(p *Prog, info *types.Info, pkg string, field *types.Var) string {
	why, nStores := "", 0
	isField := func(e ast.Expr) bool {
		se, ok := ast.Unparen(e).(*ast.SelectorExpr)
		if !ok {
			return false
		}
		sel := info.Selections[se]
		return sel != nil && sel.Kind() == types.FieldVal && sel.Obj() == field
	}
	isElem := func(e ast.Expr) bool {
		ix, ok := ast.Unparen(e).(*ast.IndexExpr)
		return ok && isField(ix.X)
	}
	for _, fd := range p.AllFuncDecls(pkg) {
		if fd.Body == nil || strings.HasSuffix(p.Fset.Position(fd.Pos()).Filename, "_test.go") {
			continue
		}
		ast.Inspect(fd.Body, func(n ast.Node) bool {
			switch x := n.(type) {
			case *ast.AssignStmt:
				for i, l := range x.Lhs {
					if isElem(l) {
						nStores++
						okFresh := false
						if i < len(x.Rhs) && len(x.Lhs) == len(x.Rhs) {
							if c, ok := ast.Unparen(x.Rhs[i]).(*ast.CallExpr); ok && freshCopyFuncs[exprKey(c.Fun)] {
								okFresh = true
							}
						}
						if !okFresh && why == "" {
							why = p.posStr(x.Pos()) + ": an element of " + field.Name() + " is stored without a fresh copy"
						}
					}
					// f[k][i] = ... / f[k][a:b] on the left
					if ix, ok := ast.Unparen(l).(*ast.IndexExpr); ok && isElem(ix.X) && why == "" {
						why = p.posStr(x.Pos()) + ": an element of " + field.Name() + " is written in place"
					}
				}
			case *ast.CallExpr:
				k := rawKey(x.Fun)
				if (k == "append" || k == "copy") && len(x.Args) > 0 {
					hit := false
					ast.Inspect(x.Args[0], func(m ast.Node) bool {
						if e, ok := m.(ast.Expr); ok && isElem(e) {
							hit = true
						}
						return !hit
					})
					if hit && why == "" {
						why = p.posStr(x.Pos()) + ": an element of " + field.Name() + " is the destination of " + k + " (written in place)"
					}
				}
			}
			return true
		})
	}
	if why == "" && nStores == 0 {
		why = "no store into " + field.Name() + " found"
	}
	return why
}

// handedOverPrivately: every call of the non-copying store operation op (value parameter vi) in the
// package passes a value that is an element of a map field holding private copies only
// (privateCopiesField): the range value of a loop over the field, or an index of it.
func handedOverPrivately(p *Prog, info *types.Info, pkg, op string, vi int) (string, int) {
	n := 0
	for _, fd := range p.AllFuncDecls(pkg) {
		if fd.Body == nil || strings.HasSuffix(p.Fset.Position(fd.Pos()).Filename, "_test.go") {
			continue
		}
		why := ""
		var ranges []*ast.RangeStmt
		ast.Inspect(fd.Body, func(n ast.Node) bool {
			if rs, ok := n.(*ast.RangeStmt); ok {
				ranges = append(ranges, rs)
			}
			return true
		})
		ast.Inspect(fd.Body, func(nd ast.Node) bool {
			c, ok := nd.(*ast.CallExpr)
			if !ok || why != "" {
				return why == ""
			}
			se, ok := ast.Unparen(c.Fun).(*ast.SelectorExpr)
			if !ok || se.Sel.Name != op || vi >= len(c.Args) || !strings.HasSuffix(strings.TrimPrefix(typeName(info.TypeOf(se.X)), "*"), "syncedKVMap") {
				return true
			}
			n++
			arg := ast.Unparen(c.Args[vi])
			var fieldExpr ast.Expr
			if ix, isIx := arg.(*ast.IndexExpr); isIx {
				fieldExpr = ix.X
			} else if o := objOfIdent(info, arg); o != nil {
				for _, rs := range ranges {
					if rs.Value != nil && objOfIdent(info, rs.Value) == o && rs.Body.Pos() <= c.Pos() && c.End() <= rs.Body.End() {
						fieldExpr = rs.X
					}
				}
			}
			if fieldExpr == nil {
				why = p.posStr(c.Pos()) + ": the value handed to " + op + " is not an element of a field of private copies"
				return false
			}
			fse, isSel := ast.Unparen(fieldExpr).(*ast.SelectorExpr)
			if !isSel {
				why = p.posStr(c.Pos()) + ": the value handed to " + op + " does not come from a struct field"
				return false
			}
			sel := info.Selections[fse]
			fv, _ := func() (*types.Var, bool) {
				if sel == nil || sel.Kind() != types.FieldVal {
					return nil, false
				}
				v, ok := sel.Obj().(*types.Var)
				return v, ok
			}()
			if fv == nil {
				why = p.posStr(c.Pos()) + ": the value handed to " + op + " does not come from a struct field"
				return false
			}
			if w := privateCopiesField(p, info, pkg, fv); w != "" {
				why = w
			}
			return why == ""
		})
		if why != "" {
			return why, n
		}
	}
	return "", n
}

// checkCopyDiscipline: in syncedKVMap, []byte values read from m are used only as arguments
// of copying functions; values stored into m are results of copying functions.
func checkCopyDiscipline(r *Reporter, p *Prog) {
	const mp = "kvstore/mapdb"
	info := p.Pkg(mp).TypesInfo
	nReads, nWrites := 0, 0
	for _, fd := range p.Methods(mp, "syncedKVMap") {
		if fd.Body == nil {
			continue
		}
		fkey := funcKey(mp, fd)
		raw := map[types.Object]bool{}
		// raw value variables: v, ok := s.m[k]; for k, v := range s.m
		ast.Inspect(fd.Body, func(n ast.Node) bool {
			switch x := n.(type) {
			case *ast.AssignStmt:
				if len(x.Rhs) == 1 {
					if ix, ok := ast.Unparen(x.Rhs[0]).(*ast.IndexExpr); ok && fieldSel(info, ix.X, "m") && len(x.Lhs) >= 1 {
						if o := objOfIdent(info, x.Lhs[0]); o != nil && isByteSlice(o.Type()) {
							raw[o] = true
						}
					}
				}
			case *ast.RangeStmt:
				if fieldSel(info, x.X, "m") && x.Value != nil {
					if o := objOfIdent(info, x.Value); o != nil && isByteSlice(o.Type()) {
						raw[o] = true
					}
				}
			}
			return true
		})
		// a raw value may rest in a SNAPSHOT container of the function (a local map or slice of byte slices
		// made here that never leaves the function): what is read out of the container is raw again and
		// has to go through a copying call before it is handed on. That is sound because stored slices
		// are immutable - every store into the shared map installs a fresh copy (checked below) and none
		// is written in place (checked at the end).
		snapshot := map[types.Object]bool{}
		ast.Inspect(fd.Body, func(n ast.Node) bool {
			as, ok := n.(*ast.AssignStmt)
			if !ok || len(as.Lhs) != 1 || len(as.Rhs) != 1 {
				return true
			}
			ix, ok := ast.Unparen(as.Lhs[0]).(*ast.IndexExpr)
			if !ok {
				return true
			}
			ro := objOfIdent(info, as.Rhs[0])
			lo := objOfIdent(info, ix.X)
			if ro == nil || !raw[ro] || lo == nil {
				return true
			}
			if v, isVar := lo.(*types.Var); isVar && !v.IsField() && v.Pos() > fd.Body.Pos() && v.Pos() < fd.Body.End() {
				snapshot[lo] = true
			}
			return true
		})
		// the container does not escape: every mention of it is an index expression, a range operand, len() or
		// its own definition by make
		for so := range snapshot {
			escapes := false
			var st2 []ast.Node
			ast.Inspect(fd.Body, func(n ast.Node) bool {
				if n == nil {
					st2 = st2[:len(st2)-1]
					return true
				}
				st2 = append(st2, n)
				id, ok := n.(*ast.Ident)
				if !ok || (info.Uses[id] != so && info.Defs[id] != so) || len(st2) < 2 {
					return true
				}
				switch par := st2[len(st2)-2].(type) {
				case *ast.IndexExpr:
					if par.X == ast.Expr(id) {
						return true
					}
				case *ast.RangeStmt:
					if par.X == ast.Expr(id) {
						return true
					}
				case *ast.CallExpr:
					if k := rawKey(par.Fun); k == "len" || k == "delete" {
						return true
					}
				case *ast.AssignStmt:
					if len(par.Lhs) == 1 && par.Lhs[0] == ast.Expr(id) && len(par.Rhs) == 1 {
						if c, isCall := ast.Unparen(par.Rhs[0]).(*ast.CallExpr); isCall && rawKey(c.Fun) == "make" {
							return true
						}
					}
				case *ast.ValueSpec:
					return true
				}
				escapes = true
				return true
			})
			if escapes {
				delete(snapshot, so)
			}
		}
		// values read back out of a snapshot container are raw
		ast.Inspect(fd.Body, func(n ast.Node) bool {
			if rs, ok := n.(*ast.RangeStmt); ok && rs.Value != nil && snapshot[objOfIdent(info, rs.X)] {
				if o := objOfIdent(info, rs.Value); o != nil {
					raw[o] = true
				}
			}
			return true
		})
		// every use of a raw variable must be an argument of a copying function
		var stack []ast.Node
		bad := ""
		ast.Inspect(fd.Body, func(n ast.Node) bool {
			if n == nil {
				stack = stack[:len(stack)-1]
				return true
			}
			stack = append(stack, n)
			var o types.Object
			switch x := n.(type) {
			case *ast.Ident:
				o = info.Uses[x]
				if !raw[o] {
					return true
				}
			case *ast.IndexExpr:
				if !(fieldSel(info, x.X, "m") || snapshot[objOfIdent(info, x.X)]) || !isByteSlice(info.TypeOf(x)) {
					return true
				}
				// direct use of s.m[k] as a value (not comma-ok assignment handled above, not a store)
				if as, ok := stack[len(stack)-2].(*ast.AssignStmt); ok {
					for _, l := range as.Lhs {
						if l == ast.Expr(x) {
							return true // store, handled below
						}
					}
					if len(as.Rhs) == 1 && as.Rhs[0] == ast.Expr(x) {
						return true // defines a raw variable, handled above
					}
				}
			default:
				return true
			}
			nReads++
			par := stack[len(stack)-2]
			if c, ok := par.(*ast.CallExpr); ok && copyFuncs[exprKey(c.Fun)] {
				return true
			}
			// parked in a snapshot container of this function
			if as, ok := par.(*ast.AssignStmt); ok && len(as.Lhs) == 1 && len(as.Rhs) == 1 && as.Rhs[0] == ast.Expr(n.(ast.Expr)) {
				if ix, isIx := ast.Unparen(as.Lhs[0]).(*ast.IndexExpr); isIx && snapshot[objOfIdent(info, ix.X)] {
					return true
				}
			}
			// handed to a visitor: a call of a function-typed PARAMETER of this method. The obligation
			// moves to the literals the callers pass for that parameter, whose matching parameter is raw.
			if c, ok := par.(*ast.CallExpr); ok {
				if vo, isVar := info.Uses[selIdent(c.Fun)].(*types.Var); isVar {
					for pi, po := range paramObjs(info, fd) {
						if po != vo {
							continue
						}
						argIdx := -1
						for ai, a := range c.Args {
							if ast.Unparen(a) == ast.Expr(n.(ast.Expr)) {
								argIdx = ai
							}
						}
						if argIdx >= 0 {
							if msg, ok := visitorsCopy(p, info, mp, fd, pi, argIdx); ok {
								return true
							} else if msg != "" {
								bad = msg
								return true
							}
						}
					}
				}
			}
			bad = fmt.Sprintf("%s: a []byte read from the shared map is used outside a copying call; the caller would alias stored data", p.posStr(n.Pos()))
			return true
		})
		// stores into m
		ast.Inspect(fd.Body, func(n ast.Node) bool {
			as, ok := n.(*ast.AssignStmt)
			if !ok {
				return true
			}
			for i, l := range as.Lhs {
				ix, ok := ast.Unparen(l).(*ast.IndexExpr)
				if !ok || !fieldSel(info, ix.X, "m") {
					continue
				}
				nWrites++
				okCopy := false
				if i < len(as.Rhs) {
					if c, ok := ast.Unparen(as.Rhs[i]).(*ast.CallExpr); ok && copyFuncs[exprKey(c.Fun)] && exprKey(c.Fun) != "len" {
						okCopy = true
					}
				}
				if !okCopy && i < len(as.Rhs) {
					// ownership handed over: the operation stores its value parameter as it is, and every call
					// of it passes an element of a field that holds private copies only
					if ops := sharedMapStoreOps(p, info); ops[fd.Name.Name] != [2]int{} || len(ops) > 0 {
						if kv, isOp := ops[fd.Name.Name]; isOp {
							if why, nSites := handedOverPrivately(p, info, mp, fd.Name.Name, kv[1]); why == "" && nSites > 0 {
								okCopy = true
								r.Advise("copy/in-out: " + fkey + " stores its value parameter without a copy; all " + fmt.Sprint(nSites) + " call site(s) hand over a private copy held in a field that is only ever assigned fresh copies")
							} else if why != "" {
								bad = fmt.Sprintf("%s: the value parameter is stored without a copy and is not a privately owned copy at every call site (%s)", p.posStr(as.Pos()), why)
							}
						}
					}
				}
				if !okCopy && bad == "" {
					bad = fmt.Sprintf("%s: the caller's buffer is stored without a copy; later mutation of the buffer changes stored data", p.posStr(as.Pos()))
				}
			}
			return true
		})
		// stored slices are never written in place
		ast.Inspect(fd.Body, func(n ast.Node) bool {
			isElem := func(e ast.Expr) bool {
				ix, ok := ast.Unparen(e).(*ast.IndexExpr)
				return ok && fieldSel(info, ix.X, "m")
			}
			switch x := n.(type) {
			case *ast.AssignStmt:
				for _, l := range x.Lhs {
					switch y := ast.Unparen(l).(type) {
					case *ast.IndexExpr:
						if isElem(y.X) {
							bad = p.posStr(x.Pos()) + ": a stored slice is written in place: readers that hold it (snapshots, copies in progress) see the change"
						}
					case *ast.SliceExpr:
						_ = y
					}
				}
			case *ast.CallExpr:
				if k := rawKey(x.Fun); (k == "copy" || k == "append") && len(x.Args) > 0 {
					hit := false
					ast.Inspect(x.Args[0], func(m ast.Node) bool {
						if e, ok := m.(ast.Expr); ok && isElem(e) {
							hit = true
						}
						return !hit
					})
					if hit {
						bad = p.posStr(x.Pos()) + ": a stored slice is the destination of " + k + " (written in place)"
					}
				}
			}
			return true
		})
		if len(raw) > 0 || bad != "" {
			if bad != "" {
				r.Fail("copy/in-out", fkey, p.posStr(fd.Pos()), bad)
			} else {
				r.Pass("copy/in-out", fkey, p.posStr(fd.Pos()), "every []byte crossing the map boundary passes a copying call")
			}
		}
	}
	if fd := p.FuncDecl(mp, "syncedKVMap", "set"); fd != nil {
		// ensure set was covered even though it reads nothing
		if nWrites == 0 {
			r.Fail("copy/in-out", mp+".syncedKVMap.set", p.posStr(fd.Pos()), "no store into the shared map found (vacuous)")
		} else {
			r.Pass("copy/in-out", mp+".syncedKVMap stores", p.posStr(fd.Pos()), fmt.Sprintf("%d store(s) into the map, all copied", nWrites))
		}
	}
	if nReads < 2 {
		r.Fail("copy/in-out", mp+".syncedKVMap reads", "-", fmt.Sprintf("expected reads of []byte values from the map, found %d (vacuous)", nReads))
	}
	// an empty (or nil) value is a legal value of a key: whether a key is removed is never decided by
	// looking at the value's nil-ness or length. In the map store, no removal from the shared map is
	// reachable from a branch that found a []byte nil / of length zero.
	{
		nConds, nDeletes := 0, 0
		badNil := ""
		isBytes := func(e ast.Expr) bool {
			t := info.TypeOf(e)
			if t == nil {
				return false
			}
			sl, ok := t.Underlying().(*types.Slice)
			if !ok {
				return false
			}
			b, ok := sl.Elem().Underlying().(*types.Basic)
			return ok && b.Kind() == types.Byte
		}
		isSharedDelete := func(n ast.Node) bool {
			c, ok := n.(*ast.CallExpr)
			if !ok {
				return false
			}
			if rawKey(c.Fun) == "delete" && len(c.Args) == 2 && fieldSel(info, c.Args[0], "m") {
				return true
			}
			if se, isSel := ast.Unparen(c.Fun).(*ast.SelectorExpr); isSel && (se.Sel.Name == "delete" || se.Sel.Name == "deletePrefix") {
				return strings.HasSuffix(strings.TrimPrefix(typeName(info.TypeOf(se.X)), "*"), "syncedKVMap")
			}
			return false
		}
		for _, fd := range p.AllFuncDecls(mp) {
			if fd.Body == nil || strings.HasSuffix(p.Fset.Position(fd.Pos()).Filename, "_test.go") {
				continue
			}
			f := newFuncCFG(p, info, fd.Body, funcKey(mp, fd))
			nDeletes += len(f.Find(isSharedDelete))
			f.forEachEdgeFact(func(e Edge, b *cfg.Block, ft fact) {
				nConds++
				var x ast.Expr
				if v, _, isTest := nilTest(info, ft.Atom); isTest {
					x = v
				} else if be, ok := ast.Unparen(ft.Atom).(*ast.BinaryExpr); ok {
					for _, side := range []ast.Expr{be.X, be.Y} {
						if c, isCall := ast.Unparen(side).(*ast.CallExpr); isCall && rawKey(c.Fun) == "len" && len(c.Args) == 1 {
							x = c.Args[0]
						}
					}
				}
				if x == nil || !isBytes(x) {
					return
				}
				e2 := e
				if w, found := f.reach(Point{e.From.Succs[e.Succ], 0}, &searchOpts{FromEdge: &e2}, func(pt Point, atExit bool) bool {
					return !atExit && containsMatch(f.nodeAt(pt), isSharedDelete)
				}); found && badNil == "" {
					badNil = fmt.Sprintf("%s: in %s a removal from the shared map is reached from a branch on the nil-ness / length of the value %s (%s): an empty value is a legal value, setting it must create the key, not delete it", p.posStr(ft.Atom.Pos()), funcKey(mp, fd), exprKey(x), strings.Join(w, " -> "))
				}
			})
		}
		switch {
		case badNil != "":
			r.Fail("presence/no-nil-sentinel", mp, "-", badNil)
		case nDeletes == 0 || nConds == 0:
			r.Fail("presence/no-nil-sentinel", mp, "-", fmt.Sprintf("expected removals from the shared map and branch conditions in the package (found %d / %d) (vacuous)", nDeletes, nConds))
		default:
			r.Pass("presence/no-nil-sentinel", mp, "-", fmt.Sprintf("%d removal site(s), %d branch fact(s) examined: no removal depends on a value being nil or empty", nDeletes, nConds))
		}
	}
	// Realm() hands out a copy
	for _, fd := range p.Methods(mp, "mapDB") {
		if fd.Name.Name != "Realm" || fd.Body == nil {
			continue
		}
		ok := false
		ast.Inspect(fd.Body, func(n ast.Node) bool {
			if rs, isRet := n.(*ast.ReturnStmt); isRet && len(rs.Results) == 1 {
				if c, isCall := ast.Unparen(rs.Results[0]).(*ast.CallExpr); isCall && copyFuncs[exprKey(c.Fun)] {
					ok = true
				}
			}
			return true
		})
		if ok {
			r.Pass("copy/in-out", mp+".mapDB.Realm", p.posStr(fd.Pos()), "realm handed out as a copy")
		} else {
			r.Fail("copy/in-out", mp+".mapDB.Realm", p.posStr(fd.Pos()), "Realm() must return a copy of the realm (a caller mutating it would re-key the view)")
		}
	}
}

func isByteSlice(t types.Type) bool {
	if t == nil {
		return false
	}
	s, ok := t.Underlying().(*types.Slice)
	if !ok {
		return false
	}
	b, ok := s.Elem().Underlying().(*types.Basic)
	return ok && b.Kind() == types.Byte
}

// checkIterationOrder: iterate/iterateKeys range over SortSlice(keys, iterDirection...); a false
// consumer result leaves the loop; SortSlice maps directions to ascending / reverse.
func checkIterationOrder(r *Reporter, p *Prog) {
	const mp = "kvstore/mapdb"
	info := p.Pkg(mp).TypesInfo
	// judged on the view's exported operations with the shared map's iteration spliced in: the
	// consumer and the direction are the operation's own parameters, however they reach the loop
	for _, name := range []string{"Iterate", "IterateKeys"} {
		fd := p.FuncDecl(mp, "mapDB", name)
		key := mp + ".mapDB." + name
		if fd == nil {
			r.Unresolved("order/sorted-direction", key, "function not found")
			continue
		}
		params := paramObjs(info, fd)
		if len(params) != 3 {
			r.Unresolved("order/sorted-direction", key, "expected (prefix, consumer, direction...)")
			continue
		}
		consume := params[1]
		dir := params[2]
		// The keys reported to the consumer are sorted with the caller's direction: a
		// utils.SortSlice(_, <direction parameter>...) call lies on every path to the loop that
		// invokes the consumer (in the function itself or in an expanded helper), and the loop
		// ranges over its result.
		fo := newFuncCFG(p, info, fd.Body, key)
		var loop ast.Stmt
		var theLoop *loopInfo
		isConsumeAt := func(c *ast.CallExpr, g *FuncCFG) bool {
			if objOfIdent(info, c.Fun) == consume {
				return true
			}
			if _, isId := ast.Unparen(c.Fun).(*ast.Ident); !isId {
				return false
			}
			cpt, okp := g.PointOf(c)
			return okp && g.IsVar(c.Fun, cpt, consume)
		}
		consumeCalls := fo.Find(func(n ast.Node) bool {
			c, ok := n.(*ast.CallExpr)
			return ok && isConsumeAt(c, fo)
		})
		for _, l := range fo.Loops() {
			l := l
			for _, cc := range consumeCalls {
				if fo.InLoopBody(l, cc) {
					theLoop = &l
					loop = l.Stmt
				}
			}
		}
		if theLoop == nil {
			r.Fail("order/sorted-direction", key, p.posStr(fd.Pos()), "no loop invoking the consumer")
			continue
		}
		isSortWithDir := func(n ast.Node) bool {
			c, ok := n.(*ast.CallExpr)
			if !ok || !strings.HasSuffix(exprKey(c.Fun), "SortSlice") || len(c.Args) != 2 || !c.Ellipsis.IsValid() {
				return false
			}
			cpt, okp := fo.PointOf(c)
			if !okp {
				return false
			}
			re, _ := fo.Resolve(c.Args[1], cpt)
			return objOfIdent(info, re) == dir || fo.IsVar(c.Args[1], cpt, dir)
		}
		sorts := fo.Find(isSortWithDir)
		okSort := len(sorts) > 0
		if okSort {
			// no path reaches the loop head without the sort
			if _, found := fo.reachBlock(fo.entry(), &searchOpts{AvoidNode: isSortWithDir}, func(b *cfg.Block) bool { return b == theLoop.Head }, false); found {
				okSort = false
			}
		}
		// the loop ranges over the sorted slice (directly, or through the helper that sorts)
		if okSort {
			okSort = false
			if rs, isRange := loop.(*ast.RangeStmt); isRange {
				hpt := Point{theLoop.Head, 0}
				re, _ := fo.Resolve(rs.X, hpt)
				if c, isCall := ast.Unparen(re).(*ast.CallExpr); isCall {
					if isSortWithDir(c) {
						okSort = true
					} else {
						// a helper call: one of the sorts lies in its expansion
						for _, sp := range sorts {
							for reg := fo.regionOf[sp.B]; reg != nil; reg = reg.parent {
								if reg.call == c {
									okSort = true
								}
							}
						}
					}
				}
			}
		}
		if !okSort {
			r.Fail("order/sorted-direction", key, p.posStr(loop.Pos()), "the consumer loop must range over utils.SortSlice(keys, iterDirection...) with the caller's direction forwarded")
		} else {
			r.Pass("order/sorted-direction", key, p.posStr(loop.Pos()), "keys are sorted with the caller's direction before they are reported")
		}
		// stop on false
		f := newFuncCFG(p, info, fd.Body, key)
		isConsumeCall := func(n ast.Node) bool {
			c, ok := n.(*ast.CallExpr)
			return ok && isConsumeAt(c, f)
		}
		_, falseE := f.CondEdges(func(e ast.Expr) bool { return isConsumeCall(e) })
		if len(falseE) == 0 {
			r.Fail("order/stop-on-false", key, p.posStr(loop.Pos()), "the consumer's result is not tested: iteration cannot be stopped")
		} else {
			bad := false
			var wit []string
			for _, e := range falseE {
				if w, found := f.reach(Point{e.From.Succs[e.Succ], 0}, nil, func(pt Point, atExit bool) bool {
					if atExit {
						return false
					}
					hit := false
					inspectNoLit(f.nodeAt(pt), func(n ast.Node) bool {
						if isConsumeCall(n) {
							hit = true
						}
						return !hit
					})
					return hit
				}); found {
					bad = true
					wit = w
				}
			}
			if bad {
				r.Fail("order/stop-on-false", key, p.posStr(loop.Pos()), "after the consumer returned false the consumer can be invoked again", wit...)
			} else {
				r.Pass("order/stop-on-false", key, p.posStr(loop.Pos()), "a false result leaves the loop")
			}
		}
	}
	// SortSlice
	fd := p.FuncDecl("kvstore/utils", "", "SortSlice")
	if fd == nil {
		r.Unresolved("order/sortslice", "kvstore/utils.SortSlice", "function not found")
		return
	}
	// whatever the dispatch form: the sort call reachable only on the `direction == Forward`
	// edge sorts ascending, the one only on the `direction == Backward` edge sorts in reverse
	cases := map[string]string{}
	{
		uinfo := p.Pkg("kvstore/utils").TypesInfo
		f := newFuncCFG(p, uinfo, fd.Body, "SortSlice")
		dirEdges := map[string][]Edge{}
		f.forEachEdgeFact(func(e Edge, _ *cfg.Block, ft fact) {
			rel, ok := relOf(ft.Atom)
			if !ok {
				return
			}
			if !ft.Pol {
				rel = negRel(rel)
			}
			// the direction has exactly two values (GetIterDirection panics otherwise):
			// `!= Backward` means Forward and vice versa
			other := map[string]string{"IterDirectionForward": "IterDirectionBackward", "IterDirectionBackward": "IterDirectionForward"}
			for _, d := range []string{"IterDirectionForward", "IterDirectionBackward"} {
				if strings.HasSuffix(rel.L, d) || strings.HasSuffix(rel.R, d) {
					switch rel.Op {
					case "==":
						dirEdges[d] = append(dirEdges[d], e)
					case "!=":
						dirEdges[other[d]] = append(dirEdges[other[d]], e)
					}
				}
			}
		})
		slice := ""
		if ps := paramObjs(uinfo, fd); len(ps) > 0 {
			slice = ps[0].Name()
		}
		// the ordering operations on the slice (any library spelling of a sort; slices.Reverse),
		// each with the direction it is confined to ("" = runs for both)
		type op struct {
			pt    Point
			sd    *sortDesc
			guard string
		}
		var ops []op
		for _, pt := range f.Find(func(n ast.Node) bool {
			c, ok := n.(*ast.CallExpr)
			if !ok {
				return false
			}
			if sd := recogniseSort(uinfo, c); sd != nil && exprKey(sd.Target) == slice {
				return true
			}
			return qualifiedCallee(uinfo, c) == "slices.Reverse" && len(c.Args) == 1 && exprKey(c.Args[0]) == slice
		}) {
			o := op{pt: pt, sd: sortIn(uinfo, f.nodeAt(pt))}
			for d, edges := range dirEdges {
				if _, only := f.OnlyThroughEdges(pt, edges); only {
					o.guard = d
				}
			}
			ops = append(ops, o)
		}
		for _, d := range []string{"IterDirectionForward", "IterDirectionBackward"} {
			var sorts []op
			for _, o := range ops {
				if o.sd != nil && (o.guard == "" || o.guard == d) {
					sorts = append(sorts, o)
				}
			}
			if len(sorts) != 1 || !sorts[0].sd.OK || sorts[0].sd.Kind != "ord" || sorts[0].sd.Key != "@" {
				continue
			}
			desc := sorts[0].sd.Desc
			bad := false
			for _, o := range ops {
				if o.sd == nil && (o.guard == "" || o.guard == d) {
					// a reversal counts when it follows the sort
					if _, after := f.reachBlock(sorts[0].pt, nil, func(b *cfg.Block) bool { return b == o.pt.B }, false); after || (o.pt.B == sorts[0].pt.B && o.pt.I > sorts[0].pt.I) {
						desc = !desc
					} else {
						bad = true
					}
				}
			}
			if !bad {
				cases[d] = map[bool]string{false: "ascending", true: "descending"}[desc]
			}
		}
	}
	wantF, wantB := "ascending", "descending"
	if cases["IterDirectionForward"] == wantF && cases["IterDirectionBackward"] == wantB {
		r.Pass("order/sortslice", "kvstore/utils.SortSlice", p.posStr(fd.Pos()), "Forward -> ascending byte order, Backward -> reverse")
	} else {
		r.Fail("order/sortslice", "kvstore/utils.SortSlice", p.posStr(fd.Pos()), fmt.Sprintf("direction table differs: Forward=%q Backward=%q, want %q / %q", cases["IterDirectionForward"], cases["IterDirectionBackward"], wantF, wantB))
	}
}

// checkBatchDisjoint: last operation per key wins.
func checkBatchDisjoint(r *Reporter, p *Prog) {
	const mp = "kvstore/mapdb"
	info := p.Pkg(mp).TypesInfo
	for _, row := range []struct{ m, add, remove string }{{"Set", "setOperations", "deleteOperations"}, {"Delete", "deleteOperations", "setOperations"}} {
		f := p.CFGOf(mp, "batchedMutations", row.m)
		key := mp + ".batchedMutations." + row.m
		if f == nil {
			r.Unresolved("batch/disjoint", key, "method not found")
			continue
		}
		var addKey, remKey string
		isAdd := func(n ast.Node) bool {
			as, ok := n.(*ast.AssignStmt)
			if !ok || len(as.Lhs) != 1 {
				return false
			}
			ix, ok := ast.Unparen(as.Lhs[0]).(*ast.IndexExpr)
			if ok && fieldSel(info, ix.X, row.add) {
				addKey = exprKey(ix.Index)
				return true
			}
			return false
		}
		isRem := func(n ast.Node) bool {
			c, ok := n.(*ast.CallExpr)
			if ok && exprKey(c.Fun) == "delete" && len(c.Args) == 2 && fieldSel(info, c.Args[0], row.remove) {
				remKey = exprKey(c.Args[1])
				return true
			}
			return false
		}
		_, missAdd := f.reach(f.entry(), &searchOpts{AvoidNode: isAdd}, func(pt Point, atExit bool) bool { return atExit })
		// (nothing has to be removed on an edge on which the opposite map is known to be empty)
		emptyOpp := map[Edge]bool{}
		f.forEachEdgeFact(func(e Edge, b *cfg.Block, ft fact) {
			rel, ok := relOf(ft.Atom)
			if !ok {
				return
			}
			if !ft.Pol {
				rel = negRel(rel)
			}
			isLenOpp := func(k string) bool {
				return strings.HasPrefix(k, "len(") && strings.HasSuffix(k, "."+row.remove+")")
			}
			if (rel.Op == "==" && ((isLenOpp(rel.L) && rel.R == "0") || (isLenOpp(rel.R) && rel.L == "0"))) || (rel.Op == "<=" && isLenOpp(rel.L) && rel.R == "0") {
				emptyOpp[e] = true
			}
		})
		// ... nor on the edge on which the key was looked up in the opposite map and found absent
		// (`if _, pending := b.setOperations[key]; pending { delete(...) }`)
		f.forEachEdgeFact(func(e Edge, b *cfg.Block, ft fact) {
			if ft.Pol {
				return
			}
			id, ok := ast.Unparen(ft.Atom).(*ast.Ident)
			if !ok {
				return
			}
			o := objOfIdent(info, id)
			if o == nil {
				return
			}
			defs, fromEntry := f.ReachingDefs(Point{b, len(b.Nodes) - 1}, o)
			if len(defs) != 1 || fromEntry {
				return
			}
			if as, isAs := f.nodeAt(defs[0].At).(*ast.AssignStmt); isAs && len(as.Lhs) == 2 && len(as.Rhs) == 1 && objOfIdent(info, as.Lhs[1]) == o {
				if ix, isIx := ast.Unparen(as.Rhs[0]).(*ast.IndexExpr); isIx && fieldSel(info, ix.X, row.remove) {
					emptyOpp[e] = true
				}
			}
		})
		_, missRem := f.reach(f.entry(), &searchOpts{AvoidNode: isRem, AvoidEdge: func(e Edge) bool { return emptyOpp[e] }}, func(pt Point, atExit bool) bool { return atExit })
		switch {
		case missAdd:
			r.Fail("batch/disjoint", key, f.P.posStr(f.Body.Pos()), "a path returns without recording the operation in "+row.add)
		case missRem:
			r.Fail("batch/disjoint", key, f.P.posStr(f.Body.Pos()), "a path returns without removing the key from "+row.remove+": an earlier opposite operation on the same key would still be applied on Commit")
		case addKey != remKey:
			r.Fail("batch/disjoint", key, f.P.posStr(f.Body.Pos()), fmt.Sprintf("different keys used for the two maps (%s vs %s)", addKey, remKey))
		default:
			r.Pass("batch/disjoint", key, f.P.posStr(f.Body.Pos()), "records in "+row.add+" and removes from "+row.remove+" on every path, same key")
		}
	}
	// Cancel resets both; Commit applies both
	if fd := p.FuncDecl(mp, "batchedMutations", "Cancel"); fd == nil {
		r.Unresolved("batch/disjoint", mp+".batchedMutations.Cancel", "method not found")
	} else {
		reset := map[string]bool{}
		ast.Inspect(fd.Body, func(n ast.Node) bool {
			switch x := n.(type) {
			case *ast.AssignStmt:
				for i, l := range x.Lhs {
					if se, ok := ast.Unparen(l).(*ast.SelectorExpr); ok && i < len(x.Rhs) {
						if c, ok := ast.Unparen(x.Rhs[i]).(*ast.CallExpr); ok && exprKey(c.Fun) == "make" {
							reset[se.Sel.Name] = true
						}
					}
				}
			case *ast.CallExpr:
				if exprKey(x.Fun) == "clear" && len(x.Args) == 1 {
					if se, ok := ast.Unparen(x.Args[0]).(*ast.SelectorExpr); ok {
						reset[se.Sel.Name] = true
					}
				}
			}
			return true
		})
		if reset["setOperations"] && reset["deleteOperations"] {
			r.Pass("batch/disjoint", mp+".batchedMutations.Cancel", p.posStr(fd.Pos()), "both operation maps are reset")
		} else {
			r.Fail("batch/disjoint", mp+".batchedMutations.Cancel", p.posStr(fd.Pos()), "Cancel must reset both operation maps; a cancelled batch would still apply operations")
		}
	}
	if fd := p.FuncDecl(mp, "batchedMutations", "Commit"); fd == nil {
		r.Unresolved("batch/commit-applies", mp+".batchedMutations.Commit", "method not found")
	} else {
		// each recorded operation reaches the shared map: in the loop over setOperations a
		// syncedKVMap.set, in the loop over deleteOperations a syncedKVMap.delete - called
		// directly or through a helper of the view (expanded)
		applied := map[string]string{}
		storeOps := sharedMapStoreOps(p, info)
		cf := newFuncCFG(p, info, fd.Body, "Commit")
		for _, l := range cf.Loops() {
			// what the loop ranges over, resolved through helper parameters: "range:b.setOperations"
			bound := cf.LoopBound(l)
			if !strings.HasPrefix(bound, "range:") || !strings.Contains(bound, ".") {
				continue
			}
			rangedField := bound[strings.LastIndex(bound, ".")+1:]
			for _, pt := range cf.Find(func(n ast.Node) bool {
				c, ok := n.(*ast.CallExpr)
				if !ok {
					return false
				}
				s2, ok := ast.Unparen(c.Fun).(*ast.SelectorExpr)
				if !ok {
					return false
				}
				_, isStoreOp := storeOps[s2.Sel.Name]
				return ok && isSharedMap(cf, info, c, s2.X) && (s2.Sel.Name == "set" || s2.Sel.Name == "delete" || isStoreOp)
			}) {
				if !cf.InLoopBody(l, pt) {
					continue
				}
				inspectNoLit(cf.nodeAt(pt), func(m ast.Node) bool {
					if c, ok := m.(*ast.CallExpr); ok {
						if s2, ok := ast.Unparen(c.Fun).(*ast.SelectorExpr); ok && isSharedMap(cf, info, c, s2.X) {
							args := []string{}
							for _, a := range c.Args {
								args = append(args, cf.KeyAt(a, pt))
							}
							applied[rangedField] = s2.Sel.Name + "(" + strings.Join(args, ",") + ")"
						}
					}
					return true
				})
			}
		}
		storeName := applied["setOperations"]
		if i := strings.Index(storeName, "("); i >= 0 {
			storeName = storeName[:i]
		}
		_, storeByRole := storeOps[storeName]
		okSet := (strings.HasPrefix(applied["setOperations"], "set(") || storeByRole) && strings.Contains(applied["setOperations"], "key") && strings.Contains(applied["setOperations"], "value")
		okDel := strings.HasPrefix(applied["deleteOperations"], "delete(") && strings.Contains(applied["deleteOperations"], "key")
		if okSet && okDel {
			r.Pass("batch/commit-applies", mp+".batchedMutations.Commit", p.posStr(fd.Pos()), "applies "+applied["setOperations"]+" and "+applied["deleteOperations"])
		} else {
			r.Fail("batch/commit-applies", mp+".batchedMutations.Commit", p.posStr(fd.Pos()), fmt.Sprintf("Commit must apply every recorded set and delete to the store (found %v)", applied))
		}
	}
}

// checkWrapsInner: method m of wrapper calls <field>.m(params) and returns a literal of
// wrapType whose wrapField is the result of that inner call (wraps the VIEW, not the parent).
func checkWrapsInner(r *Reporter, p *Prog, pkg, typ, m, field, wrapType, wrapField string) {
	fd := p.FuncDecl(pkg, typ, m)
	key := pkg + "." + typ + "." + m
	if fd == nil {
		r.Unresolved("fwd/wraps-inner", key, "method not found")
		return
	}
	info := p.Pkg(pkg).TypesInfo
	calls := forwardingCalls(info, fd, field, m)
	if len(calls) != 1 {
		r.Fail("fwd/wraps-inner", key, p.posStr(fd.Pos()), fmt.Sprintf("expected one call of %s.%s, found %d", field, m, len(calls)))
		return
	}
	if ok, why := argsAreParams(info, fd, calls[0]); !ok {
		r.Fail("fwd/wraps-inner", key, p.posStr(calls[0].Pos()), why)
		return
	}
	var resVar types.Object
	ast.Inspect(fd.Body, func(n ast.Node) bool {
		if as, ok := n.(*ast.AssignStmt); ok && len(as.Rhs) == 1 && ast.Unparen(as.Rhs[0]) == ast.Expr(calls[0]) && len(as.Lhs) == 2 {
			resVar = objOfIdent(info, as.Lhs[0])
		}
		return true
	})
	ok := false
	ast.Inspect(fd.Body, func(n ast.Node) bool {
		cl, isCL := n.(*ast.CompositeLit)
		if !isCL || shortTypeName(typeName(info.TypeOf(cl))) != wrapType {
			return true
		}
		for _, el := range cl.Elts {
			if kv, isKV := el.(*ast.KeyValueExpr); isKV && exprKey(kv.Key) == wrapField && resVar != nil && objOfIdent(info, kv.Value) == resVar {
				ok = true
			}
		}
		return true
	})
	// ... or the one-line constructor of the wrapper handed the inner view (`New(store)` with body
	// `return &T{field: param}`)
	if !ok {
		ast.Inspect(fd.Body, func(n ast.Node) bool {
			c, isCall := n.(*ast.CallExpr)
			if !isCall || ok {
				return !ok
			}
			cl, _, bind := constructorLiteral(p, info, c)
			if cl == nil || shortTypeName(typeName(info.TypeOf(cl))) != wrapType {
				return true
			}
			for _, el := range cl.Elts {
				if kv, isKV := el.(*ast.KeyValueExpr); isKV && exprKey(kv.Key) == wrapField {
					if po := objOfIdent(info, kv.Value); po != nil && bind[po] != nil && resVar != nil && objOfIdent(info, bind[po]) == resVar {
						ok = true
					}
				}
			}
			return true
		})
	}
	f := newFuncCFG(p, info, fd.Body, key)
	succ, _ := f.ErrEdges(calls[0])
	if !ok {
		r.Fail("fwd/wraps-inner", key, p.posStr(calls[0].Pos()), "the returned wrapper does not wrap the object returned by the inner "+m+" (a view of a wrapper must wrap the inner VIEW)")
	} else if len(succ) == 0 {
		r.Fail("fwd/wraps-inner", key, p.posStr(calls[0].Pos()), "error of the inner "+m+" is not tested")
	} else {
		r.Pass("fwd/wraps-inner", key, p.posStr(calls[0].Pos()), "wraps the result of the inner "+m)
	}
}

// checkFlushAfter: on the success edge of the delegated mutation every path to a return passes store.Flush().
func checkFlushAfter(r *Reporter, p *Prog, pkg, typ, m, field string) {
	key := pkg + "." + typ + "." + m
	f := p.CFGOf(pkg, typ, m)
	if f == nil {
		r.Unresolved("fwd/flush-after-write", key, "method not found")
		return
	}
	info := f.Info
	fd := p.FuncDecl(pkg, typ, m)
	calls := forwardingCalls(info, fd, field, m)
	if len(calls) != 1 {
		r.Fail("fwd/flush-after-write", key, f.P.posStr(f.Body.Pos()), "delegated mutation not found")
		return
	}
	succ, _ := f.ErrEdges(calls[0])
	if len(succ) == 0 {
		r.Fail("fwd/flush-after-write", key, p.posStr(calls[0].Pos()), "the mutation's error is not tested before flushing")
		return
	}
	// Flush of the store field, also when the field travels to a helper as a parameter
	flushCalls := map[*ast.CallExpr]bool{}
	for _, c := range f.Calls(func(c *ast.CallExpr) bool {
		se, ok := ast.Unparen(c.Fun).(*ast.SelectorExpr)
		return ok && se.Sel.Name == "Flush"
	}) {
		se := ast.Unparen(c.Fun).(*ast.SelectorExpr)
		x := se.X
		if cpt, found := f.PointOf(c); found {
			if re, _ := f.Resolve(x, cpt); re != nil {
				x = re
			}
		}
		if fieldSel(info, x, "store") {
			flushCalls[c] = true
		}
	}
	isFlush := func(n ast.Node) bool {
		c, ok := n.(*ast.CallExpr)
		return ok && flushCalls[c]
	}
	for _, e := range succ {
		if w, found := f.reach(Point{e.From.Succs[e.Succ], 0}, &searchOpts{AvoidNode: isFlush}, func(pt Point, atExit bool) bool { return atExit }); found {
			r.Fail("fwd/flush-after-write", key, p.posStr(calls[0].Pos()), "a successful mutation can return without Flush", w...)
			return
		}
	}
	// the flush result is what is returned
	okRet := false
	ast.Inspect(fd.Body, func(n ast.Node) bool {
		if rs, ok := n.(*ast.ReturnStmt); ok && len(rs.Results) == 1 {
			if isFlush(ast.Unparen(rs.Results[0])) {
				okRet = true
			} else if rpt, found := f.PointOf(rs); found {
				// `return finish(...)`: every value the helper hands back on a path that flushed
				// is the flush result (its other returns are the mutation's own error)
				for _, o := range f.Origins(rs.Results[0], rpt) {
					if isFlush(ast.Unparen(o.E)) {
						okRet = true
					}
				}
			}
		}
		return true
	})
	if !okRet {
		r.Fail("fwd/flush-after-write", key, p.posStr(calls[0].Pos()), "the Flush error is not returned")
		return
	}
	r.Pass("fwd/flush-after-write", key, p.posStr(calls[0].Pos()), "success edge of the mutation leads to return store.Flush() on every path")
}

var _ = token.ADD

// visitorsCopy: method fd hands a raw stored value to its paramIdx-th parameter (a function) as
// argument argIdx. Every call of fd in the package must pass a function literal there, and inside
// each literal the matching parameter is used only as an argument of a copying function.
var visitorDepth int

func visitorsCopy(p *Prog, info *types.Info, pkg string, fd *ast.FuncDecl, paramIdx, argIdx int) (string, bool) {
	target, _ := info.Defs[fd.Name].(*types.Func)
	if target == nil || fd.Name.IsExported() {
		return "", false
	}
	n := 0
	for _, caller := range p.AllFuncDecls(pkg) {
		if caller.Body == nil {
			continue
		}
		msg := ""
		ast.Inspect(caller.Body, func(m ast.Node) bool {
			c, ok := m.(*ast.CallExpr)
			if !ok || msg != "" {
				return true
			}
			fn := staticCallee(info, c)
			if fn == nil || fn.Origin() != target || paramIdx >= len(c.Args) {
				return true
			}
			n++
			if isNil(info, c.Args[paramIdx]) {
				return true // no visitor at this call: nothing is handed out
			}
			// the caller forwards its own function parameter: its callers must pass a copying visitor
			if po := objOfIdent(info, c.Args[paramIdx]); po != nil && !caller.Name.IsExported() && visitorDepth < 3 {
				for ci, cp := range paramObjs(info, caller) {
					if cp == po {
						visitorDepth++
						m2, ok2 := visitorsCopy(p, info, pkg, caller, ci, argIdx)
						visitorDepth--
						if !ok2 {
							msg = m2
							if msg == "" {
								msg = p.posStr(c.Pos()) + ": the visitor is forwarded from " + caller.Name.Name + ", which is never called with one"
							}
						}
						return true
					}
				}
			}
			// a literal, a named function of the package or a method value
			cbs := callbacksIn(p, info, c.Args[paramIdx])
			if len(cbs) != 1 || cbs[0].Node != ast.Node(ast.Unparen(c.Args[paramIdx])) {
				msg = p.posStr(c.Pos()) + ": the visitor handed to " + fd.Name.Name + " is not a function of this package (literal, named function or method value): cannot establish that the stored []byte it receives is copied"
				return true
			}
			lit := cbs[0]
			var raw types.Object
			k := 0
			for _, fl := range lit.Type.Params.List {
				for _, nm := range fl.Names {
					if k == argIdx {
						raw = info.Defs[nm]
					}
					k++
				}
				if len(fl.Names) == 0 {
					k++
				}
			}
			if raw == nil {
				return true // the visitor ignores the value (blank parameter)
			}
			var stack []ast.Node
			ast.Inspect(lit.Body, func(q ast.Node) bool {
				if q == nil {
					stack = stack[:len(stack)-1]
					return true
				}
				stack = append(stack, q)
				id, isId := q.(*ast.Ident)
				if !isId || info.Uses[id] != raw {
					return true
				}
				if len(stack) >= 2 {
					if pc, ok := stack[len(stack)-2].(*ast.CallExpr); ok && copyFuncs[exprKey(pc.Fun)] {
						return true
					}
				}
				msg = p.posStr(id.Pos()) + ": the visitor uses the stored []byte it is handed outside a copying call; the snapshot would alias stored data"
				return true
			})
			return true
		})
		if msg != "" {
			return msg, false
		}
	}
	return "", n > 0
}

// iterationEndToEnd: see checkRealmDiscipline.
func iterationEndToEnd(p *Prog, mp, name string) bool {
	info := p.Pkg(mp).TypesInfo
	fd := p.FuncDecl(mp, "mapDB", name)
	if fd == nil || fd.Body == nil {
		return false
	}
	params := paramObjs(info, fd) // prefix, consumer, direction
	if len(params) != 3 {
		return false
	}
	ownRealm := recvIdentOf(fd).Name + ".realm"
	f := newFuncCFG(p, info, fd.Body, funcKey(mp, fd)+"/end-to-end")
	isParam := func(e ast.Expr, pt Point, i int) bool {
		if f.IsVar(e, pt, params[i]) {
			return true
		}
		re, _ := f.Resolve(e, pt)
		if c, ok := ast.Unparen(re).(*ast.CallExpr); ok && len(c.Args) == 1 {
			if tv, ok := info.Types[c.Fun]; ok && tv.IsType() {
				re = c.Args[0]
			}
		}
		return objOfIdent(info, re) == params[i]
	}
	nFilter, nConsume, nSort := 0, 0, 0
	okFilter, okConsume, okSort := true, true, true
	for _, b := range f.G.Blocks {
		if !b.Live {
			continue
		}
		for i, nd := range b.Nodes {
			pt := Point{b, i}
			inspectNoLit(nd, func(m ast.Node) bool {
				x, ok := m.(*ast.CallExpr)
				if !ok {
					return true
				}
				switch {
				case qualifiedCallee(info, x) == "strings.HasPrefix" && len(x.Args) == 2:
					nFilter++
					re, rpt := f.Resolve(x.Args[1], pt)
					c, isCall := ast.Unparen(re).(*ast.CallExpr)
					if !isCall || !strings.HasSuffix(exprKey(c.Fun), "ConcatBytesToString") || len(c.Args) != 2 || f.KeyAt(c.Args[0], rpt) != ownRealm || !isParam(c.Args[1], rpt, 0) {
						okFilter = false
					}
				case (objOfIdent(info, x.Fun) == params[1] || f.IsVar(x.Fun, pt, params[1])) && len(x.Args) >= 1:
					nConsume++
					ka, kpt := f.Resolve(x.Args[0], pt)
					good := false
					if sl, ok := ast.Unparen(ka).(*ast.SliceExpr); ok && sl.High == nil && sl.Low != nil {
						lo, lpt := f.Resolve(sl.Low, kpt)
						if lc, ok := ast.Unparen(lo).(*ast.CallExpr); ok && exprKey(lc.Fun) == "len" && len(lc.Args) == 1 && f.KeyAt(lc.Args[0], lpt) == ownRealm {
							good = true
						}
					}
					if !good {
						okConsume = false
					}
				case strings.HasSuffix(exprKey(x.Fun), "SortSlice") && len(x.Args) == 2 && x.Ellipsis.IsValid():
					nSort++
					if !isParam(x.Args[1], pt, 2) {
						okSort = false
					}
				}
				return true
			})
		}
	}
	if os.Getenv("HC_DEBUG") != "" {
		fmt.Fprintf(os.Stderr, "e2e %s: filter %d/%v consume %d/%v sort %d/%v\n", name, nFilter, okFilter, nConsume, okConsume, nSort, okSort)
	}
	return nFilter >= 1 && nConsume >= 1 && nSort >= 1 && okFilter && okConsume && okSort
}

// isSharedMap: e denotes the shared map of a view - the field m, or a parameter of a spliced helper
// that was handed that field.
func isSharedMap(f *FuncCFG, info *types.Info, c *ast.CallExpr, e ast.Expr) bool {
	if fieldSel(info, e, "m") {
		return true
	}
	po := objOfIdent(info, e)
	if po == nil || f == nil {
		return false
	}
	// (the receiver of the shared map's own methods is the map itself, not a use of it by a view)
	for _, hd := range f.P.decls().byFunc {
		if hd.Recv != nil && f.P.decls().infoOf[hd] == info && recvObj(info, hd) == po {
			return false
		}
	}
	pt, ok := f.PointOf(c)
	if !ok {
		return false
	}
	for i := 0; i < 3; i++ {
		arg, apt, found := f.paramArg(po, pt)
		if !found {
			return false
		}
		if fieldSel(info, arg, "m") {
			return true
		}
		if po = objOfIdent(info, arg); po == nil {
			return false
		}
		pt = apt
	}
	return false
}

// freshConcatParts: e (evaluated at pt) is the concatenation of the returned parts written into a
// buffer that belongs to this evaluation alone: ConcatBytes(a, b, ...), or appends onto a fresh empty
// slice (make([]byte, 0, n), []byte{}, []byte(nil)) - nested in one expression or as successive
// `v = append(v, x...)` statements. ok=false when some step appends onto a slice that existed before
// (its spare capacity may be shared) or is not understood.
func freshConcatParts(f *FuncCFG, info *types.Info, e ast.Expr, pt Point, depth int) (parts []ast.Expr, ok bool) {
	if depth > 8 {
		return nil, false
	}
	e = ast.Unparen(e)
	switch x := e.(type) {
	case *ast.CompositeLit:
		if len(x.Elts) == 0 {
			if _, isSlice := info.TypeOf(x).Underlying().(*types.Slice); isSlice {
				return nil, true
			}
		}
	case *ast.CallExpr:
		k := rawKey(x.Fun)
		switch {
		case strings.HasSuffix(k, "ConcatBytes"):
			return x.Args, true
		case k == "make" && len(x.Args) >= 2 && isConstZero(info, ast.Unparen(x.Args[1])):
			return nil, true
		case k == "append" && len(x.Args) == 2 && x.Ellipsis.IsValid():
			head, okh := freshConcatParts(f, info, x.Args[0], pt, depth+1)
			if !okh {
				return nil, false
			}
			return append(append([]ast.Expr{}, head...), x.Args[1]), true
		}
		// a conversion of nil: []byte(nil)
		if tv, isT := info.Types[x.Fun]; isT && tv.IsType() && len(x.Args) == 1 && isNil(info, x.Args[0]) {
			return nil, true
		}
	case *ast.Ident:
		v, isVar := info.Uses[x].(*types.Var)
		if !isVar || v.IsField() {
			return nil, false
		}
		defs, fromEntry := f.ReachingDefs(pt, v)
		if fromEntry || len(defs) != 1 || defs[0].Rhs == nil {
			return nil, false
		}
		return freshConcatParts(f, info, defs[0].Rhs, defs[0].At, depth+1)
	}
	return nil, false
}
