package main

import (
	"fmt"
	"go/ast"
	"go/token"
	"go/types"
	"os"
	"strings"

	"golang.org/x/tools/go/cfg"
)

func init() {
	register(&property{
		ID:  "C08",
		Run: runC08,
		Meta: propMeta{
			Explanation: "Static protocol clauses of kvstore.BatchedWriter/BatchCollector on all CFG paths: (1) writeWg.Add precedes the go statement that starts the writer and Done is reached on every exit, so Stop's Wait cannot pass an unannounced writer; (2) Enqueue publishes atomically with respect to Stop: the scheduled-count increment precedes the running check that licenses the send, every abort path takes the increment back, and the writer's loop condition reads running before the count (so a stopping writer cannot miss an announced object); (3) BatchCollector: BatchWriteDone only on the success edge of the batch Commit, once per collected slot; Add resets the scheduled flag, decrements the count, writes the object and stores it on every path; (4) typestate of the collector inside the writer loop (closure inlined, flush flag tracked): every collector is committed exactly once before it is replaced or the loop ends, no Add after Commit; (5) running is flipped only under the start/stop mutex and Stop waits after clearing it. In BatchCollector.Add the scheduled flag is reset before the object is serialised.",
			NotDecided:  "exactly-once delivery and termination over all schedules and queue sizes (needs schedule exploration); behaviour of BatchWriteObject implementations",
			Assumptions: []string{"sync/atomic operations are sequentially consistent (Go memory model)", "BatchWriteScheduled is an atomic test-and-set on the object"},
		},
		Modes: []string{"deadlock"},
	})
}

func runC08(c *Ctx) {
	p := c.Load("kvstore")
	if p == nil {
		return
	}
	r := c.R
	const pkg = "kvstore"
	info := p.Pkg(pkg).TypesInfo

	// (0) the store batch the collector writes into applies, on Commit, the LAST operation recorded per
	// key: a Set removes the key's pending Delete, a Delete its pending Set, and each is recorded
	checkBatchDisjoint(r, p)
	// the collector reports "full" when the count equals the batch size, not one later
	checkBatchSizeTrigger(r, p, pkg)
	// (1)
	checkGoWaitGroup(r, p, "wg/add-before-go", pkg, p.FuncDecl(pkg, "BatchedWriter", "startBatchWriter"), 1)
	checkDoneOnAllExits(r, p, "wg/done-on-exit", pkg, p.FuncDecl(pkg, "BatchedWriter", "runBatchWriter"), "writeWg")

	atomicCall := func(n ast.Node, field, method string) *ast.CallExpr {
		c, ok := n.(*ast.CallExpr)
		if !ok {
			return nil
		}
		se, ok := ast.Unparen(c.Fun).(*ast.SelectorExpr)
		if !ok || se.Sel.Name != method || !fieldSel(info, se.X, field) {
			return nil
		}
		return c
	}
	isCountAdd := func(delta string) func(ast.Node) bool {
		return func(n ast.Node) bool {
			c := atomicCall(n, "scheduledCount", "Add")
			return c != nil && len(c.Args) == 1 && exprKey(c.Args[0]) == delta
		}
	}
	// (2) Enqueue
	if f := p.CFGOf(pkg, "BatchedWriter", "Enqueue"); f == nil {
		r.Unresolved("publish/announce-then-check", "kvstore.BatchedWriter.Enqueue", "method not found")
	} else {
		key := "kvstore.BatchedWriter.Enqueue"
		sends := f.Find(func(n ast.Node) bool {
			s, ok := n.(*ast.SendStmt)
			return ok && fieldSel(info, s.Chan, "batchQueue")
		})
		if len(sends) != 1 {
			r.Fail("publish/announce-then-check", key, f.P.posStr(f.Body.Pos()), fmt.Sprintf("expected one send on batchQueue, found %d", len(sends)))
		} else {
			send := sends[0]
			runTrue, _ := f.CondEdges(func(e ast.Expr) bool { return atomicCall(e, "running", "Load") != nil })
			if w, ok := f.OnlyThroughEdges(send, runTrue); !ok {
				r.Fail("publish/licensed-by-running", key, f.PosOf(send), "the send is reachable without observing running == true", w...)
			} else {
				r.Pass("publish/licensed-by-running", key, f.PosOf(send), "the send is dominated by a running check")
			}
			// the licensing checks: conditions on running whose true edge can reach the send
			bad := ""
			var wit []string
			nChecks := 0
			// the protocol needs ONE running check that is made after the announcement and dominates the
			// send; an additional early check before the announcement (a fast exit for a stopped writer)
			// licenses nothing and does no harm. So: the send is reachable only through running-true
			// edges whose check is itself preceded by scheduledCount.Add(1) on every path.
			var announced []Edge
			firstUnannounced := ""
			var firstWit []string
			for _, e := range runTrue {
				condPt := Point{e.From, len(e.From.Nodes) - 1}
				nChecks++
				if w, found := f.PathFromEntryAvoiding(condPt, isCountAdd("1"), nil); found {
					if firstUnannounced == "" {
						firstUnannounced, firstWit = f.PosOf(condPt), w
					}
					continue
				}
				announced = append(announced, e)
			}
			if nChecks == 0 {
				bad = "no running check"
			} else if w, only := f.OnlyThroughEdges(send, announced); !only {
				at := firstUnannounced
				if at == "" {
					at = "?"
				}
				bad = "the running check at " + at + " can be reached before scheduledCount.Add(1) and no later check made after the announcement stands between it and the send: a writer that observes running==false and count==0 in between exits, and the object is stranded in the queue (or the sender blocks forever on a full queue)"
				wit = firstWit
				if len(wit) == 0 {
					wit = w
				}
			}
			if bad != "" {
				r.Fail("publish/announce-then-check", key, f.PosOf(send), bad, wit...)
			} else {
				r.Pass("publish/announce-then-check", key, f.PosOf(send), "scheduledCount.Add(1) precedes every running check that licenses the send")
			}
			// the auto-start is a BARRIER: no Enqueue reads the running flag before the writer was started by
			// this or an earlier call and that start has completed - sync.Once.Do (every caller waits for the
			// first) or a direct call of the start function (serialised by its mutex). A "first caller
			// starts, the others carry on" flag lets a concurrent first Enqueue see running == false and
			// drop its object although nobody stopped the writer.
			{
				isStartCall := func(n ast.Node) bool {
					c, ok := n.(*ast.CallExpr)
					return ok && strings.HasSuffix(exprKey(c.Fun), ".startBatchWriter")
				}
				isBarrier := func(n ast.Node) bool {
					c, ok := n.(*ast.CallExpr)
					if !ok {
						return false
					}
					if isStartCall(c) {
						return true
					}
					se, isSel := ast.Unparen(c.Fun).(*ast.SelectorExpr)
					if !isSel || se.Sel.Name != "Do" || len(c.Args) != 1 || !strings.HasSuffix(typeName(info.TypeOf(se.X)), "sync.Once") {
						return false
					}
					if strings.HasSuffix(exprKey(c.Args[0]), ".startBatchWriter") {
						return true // the start function itself, as a method value
					}
					body, _ := callableBody(p, info, c.Args[0])
					return body != nil && containsMatch(body, isStartCall)
				}
				// a COMPLETED flag is as good as having waited: an atomic.Bool of the writer that is set
				// to true only after a start call returned (stored - possibly deferred - behind the start
				// on every path, never swapped or compare-and-swapped): whoever reads it as true knows
				// the start has completed
				flagField := func(c *ast.CallExpr, method string) types.Object {
					se, ok := ast.Unparen(c.Fun).(*ast.SelectorExpr)
					if !ok || se.Sel.Name != method || !strings.HasSuffix(typeName(info.TypeOf(se.X)), "atomic.Bool") {
						return nil
					}
					fs, ok := ast.Unparen(se.X).(*ast.SelectorExpr)
					if !ok {
						return nil
					}
					return info.Uses[fs.Sel]
				}
				completed := map[types.Object]bool{}
				isCompletedFlag := func(fld types.Object) bool {
					if v, ok := completed[fld]; ok {
						return v
					}
					okFlag, nStores := true, 0
					for _, gd := range p.AllFuncDecls(pkg) {
						if gd.Body == nil {
							continue
						}
						var gf *FuncCFG
						ast.Inspect(gd.Body, func(n ast.Node) bool {
							c, isCall := n.(*ast.CallExpr)
							if !isCall {
								return true
							}
							for _, m := range []string{"Swap", "CompareAndSwap"} {
								if flagField(c, m) == fld {
									okFlag = false
								}
							}
							if flagField(c, "Store") != fld || len(c.Args) != 1 || exprKey(c.Args[0]) != "true" {
								return true
							}
							nStores++
							if gf == nil {
								gf = newFuncCFGPlain(p, info, gd.Body, funcKey(pkg, gd))
							}
							pt, found := gf.PointOf(c)
							if !found {
								okFlag = false
								return true
							}
							if _, isDefer := gf.nodeAt(pt).(*ast.DeferStmt); isDefer {
								// runs at the exit: every path from the defer statement to the exit passes a start call
								if _, leak := gf.PathToExitAvoiding(pt, isStartCall); leak {
									okFlag = false
								}
							} else if _, early := gf.PathFromEntryAvoiding(pt, isStartCall, nil); early {
								okFlag = false
							}
							return true
						})
					}
					completed[fld] = okFlag && nStores > 0
					return completed[fld]
				}
				completedEdge := func(g *FuncCFG) func(Edge) bool {
					done := map[Edge]bool{}
					g.forEachEdgeFact(func(e Edge, b *cfg.Block, ft fact) {
						if c, ok := ast.Unparen(ft.Atom).(*ast.CallExpr); ok && ft.Pol {
							if fld := flagField(c, "Load"); fld != nil && isCompletedFlag(fld) {
								done[e] = true
							}
						}
					})
					return func(e Edge) bool { return done[e] }
				}
				// a helper of the package every path through which passes the start (or reads a completed
				// flag as true) is a barrier as well
				helperBarrier := map[*ast.FuncDecl]bool{}
				isBarrier2 := func(n ast.Node) bool {
					if isBarrier(n) {
						return true
					}
					c, ok := n.(*ast.CallExpr)
					if !ok {
						return false
					}
					fn := staticCallee(info, c)
					if fn == nil {
						return false
					}
					hd := p.decls().byFunc[fn.Origin()]
					if hd == nil || hd.Body == nil || p.decls().infoOf[hd] != info {
						return false
					}
					if v, seen := helperBarrier[hd]; seen {
						return v
					}
					helperBarrier[hd] = false
					hf := newFuncCFGPlain(p, info, hd.Body, funcKey(pkg, hd))
					_, through := hf.reach(hf.entry(), &searchOpts{AvoidNode: isBarrier, AvoidEdge: completedEdge(hf)}, func(pt Point, atExit bool) bool { return atExit })
					helperBarrier[hd] = !through
					return !through
				}
				unbarred := ""
				var uw []string
				doneEdge := completedEdge(f)
				// the start function's own look at the flag (under its mutex, spliced in when the start is
				// called through a helper) is not a read made by Enqueue
				var startFrom, startTo token.Pos
				if sd := p.FuncDecl(pkg, "BatchedWriter", "startBatchWriter"); sd != nil {
					startFrom, startTo = sd.Pos(), sd.End()
				}
				for _, e := range runTrue {
					condPt := Point{e.From, len(e.From.Nodes) - 1}
					if cp := f.nodeAt(condPt).Pos(); cp >= startFrom && cp < startTo {
						continue
					}
					if w, found := f.PathFromEntryAvoiding(condPt, isBarrier2, doneEdge); found {
						unbarred, uw = f.PosOf(condPt), w
					}
				}
				if len(runTrue) == 0 {
					r.Fail("publish/auto-start-is-a-barrier", key, f.PosOf(send), "no running check (vacuous)")
				} else if unbarred != "" {
					r.Fail("publish/auto-start-is-a-barrier", key, f.PosOf(send), "the running check at "+unbarred+" can be reached without having waited for the auto-start to complete (a flag that lets only the first caller start the writer does not make the others wait): a concurrent first Enqueue sees running == false and silently drops its object", uw...)
				} else {
					r.Pass("publish/auto-start-is-a-barrier", key, f.PosOf(send), "every path to a running check passes the once-guarded (or direct) start of the writer")
				}
			}
			// the duplicate mark: whoever claims it (BatchWriteScheduled() reported "not yet scheduled") is
			// the goroutine every concurrent duplicate Enqueue relies on - those return at once. After the
			// claim every path must therefore reach the send; a path that backs out (stopped writer) lets a
			// duplicate Enqueue that returned before Stop was called go unwritten.
			{
				_, claimed := f.CondEdges(func(e ast.Expr) bool {
					c, ok := ast.Unparen(e).(*ast.CallExpr)
					if !ok {
						return false
					}
					se, ok := ast.Unparen(c.Fun).(*ast.SelectorExpr)
					return ok && se.Sel.Name == "BatchWriteScheduled" && len(c.Args) == 0
				})
				isSend := func(n ast.Node) bool {
					s, ok := n.(*ast.SendStmt)
					return ok && fieldSel(info, s.Chan, "batchQueue")
				}
				switch {
				case len(claimed) == 0:
					r.Fail("publish/mark-holder-enqueues", key, f.PosOf(send), "no branch on object.BatchWriteScheduled() in Enqueue (vacuous)")
				default:
					badClaim := ""
					var w []string
					for _, e := range claimed {
						e := e
						if path, found := f.reach(Point{e.From.Succs[e.Succ], 0}, &searchOpts{AvoidNode: isSend, FromEdge: &e}, func(pt Point, atExit bool) bool { return atExit }); found {
							badClaim, w = "after claiming the scheduled mark (BatchWriteScheduled() == false) Enqueue can return without queueing the object: a concurrent duplicate Enqueue saw the mark, returned, and its object is never written although it was enqueued before Stop", path
						}
					}
					if badClaim != "" {
						r.Fail("publish/mark-holder-enqueues", key, f.PosOf(send), badClaim, w...)
					} else {
						r.Pass("publish/mark-holder-enqueues", key, f.PosOf(send), fmt.Sprintf("%d claim edge(s), each followed by the send on every path", len(claimed)))
					}
				}
			}
			// balance: after the increment every path sends or takes it back
			for _, a := range f.Find(isCountAdd("1")) {
				if w, found := f.PathToExitAvoiding(a, func(n ast.Node) bool {
					if isCountAdd("-1")(n) {
						return true
					}
					s, ok := n.(*ast.SendStmt)
					return ok && fieldSel(info, s.Chan, "batchQueue")
				}); found {
					r.Fail("publish/count-balanced", key, f.PosOf(a), "after scheduledCount.Add(1) a path returns without sending the object or taking the increment back: the writer never sees count 0 and Stop blocks forever", w...)
				} else {
					r.Pass("publish/count-balanced", key, f.PosOf(a), "every path after the increment sends the object or decrements again")
				}
			}
		}
	}
	// writer loop condition order
	if fd := p.FuncDecl(pkg, "BatchedWriter", "runBatchWriter"); fd == nil {
		r.Unresolved("publish/writer-loop-cond", "kvstore.BatchedWriter.runBatchWriter", "method not found")
	} else {
		var loop *ast.ForStmt
		for _, st := range fd.Body.List {
			if fs, ok := st.(*ast.ForStmt); ok && loop == nil {
				loop = fs
			}
		}
		ok := false
		detail := "the writer's outer loop must run while `running.Load() || scheduledCount.Load() != 0`, reading running first"
		if loop != nil && loop.Cond != nil {
			if b, isB := ast.Unparen(loop.Cond).(*ast.BinaryExpr); isB && b.Op == token.LOR {
				l, rr := exprKey(b.X), exprKey(b.Y)
				if strings.HasSuffix(l, ".running.Load()") && strings.Contains(rr, ".scheduledCount.Load()") {
					if rel, isRel := relOf(b.Y); isRel && rel.Op == "!=" && (rel.L == "0" || rel.R == "0") {
						ok = true
					}
				} else if strings.Contains(l, ".scheduledCount.Load()") && strings.HasSuffix(rr, ".running.Load()") {
					detail = "the loop condition reads the count before running: an Enqueue that announces and then sees running==true between the two reads is missed by the exiting writer"
				}
			}
		}
		if ok {
			r.Pass("publish/writer-loop-cond", "kvstore.BatchedWriter.runBatchWriter", p.posStr(loop.Pos()), "loop runs while running || scheduledCount != 0 (running read first)")
		} else {
			pos := p.posStr(fd.Pos())
			if loop != nil {
				pos = p.posStr(loop.Pos())
			}
			r.Fail("publish/writer-loop-cond", "kvstore.BatchedWriter.runBatchWriter", pos, detail)
		}
	}

	// (3) collector
	if f := p.CFGOf(pkg, "BatchCollector", "Commit"); f == nil {
		r.Unresolved("collector/done-after-commit", "kvstore.BatchCollector.Commit", "method not found")
	} else {
		key := "kvstore.BatchCollector.Commit"
		commits := f.Calls(func(c *ast.CallExpr) bool {
			se, ok := ast.Unparen(c.Fun).(*ast.SelectorExpr)
			return ok && se.Sel.Name == "Commit" && fieldSel(info, se.X, "batchedMuts")
		})
		dones := f.Find(func(n ast.Node) bool {
			c, ok := n.(*ast.CallExpr)
			if !ok {
				return false
			}
			se, ok := ast.Unparen(c.Fun).(*ast.SelectorExpr)
			return ok && se.Sel.Name == "BatchWriteDone"
		})
		if len(commits) != 1 || len(dones) == 0 {
			r.Fail("collector/done-after-commit", key, f.P.posStr(f.Body.Pos()), fmt.Sprintf("expected one batchedMuts.Commit and a BatchWriteDone call, found %d / %d", len(commits), len(dones)))
		} else {
			okAll := true
			for _, d := range dones {
				if w, ok, _ := f.OnlyAfterSuccess(d, commits[0]); !ok {
					okAll = false
					r.Fail("collector/done-after-commit", key, f.PosOf(d), "BatchWriteDone is reachable without passing the success edge of batchedMuts.Commit: objects are reported persisted although the batch failed or was not yet committed", w...)
				}
			}
			if okAll {
				r.Pass("collector/done-after-commit", key, f.PosOf(dones[0]), "BatchWriteDone only on the success edge of the batch commit")
			}
		}
		// loop over exactly the collected slots
		fd := p.FuncDecl(pkg, "BatchCollector", "Commit")
		okLoop := false
		// any loop form whose bound is the counter: range over the counter / counted for with an
		// indexed slot, or range over writtenValues[:counter] with the element as receiver
		for _, l := range f.Loops() {
			for _, d := range dones {
				if !f.InLoopBody(l, d) {
					continue
				}
				var recv ast.Expr
				inspectNoLit(f.nodeAt(d), func(m ast.Node) bool {
					if c, ok := m.(*ast.CallExpr); ok {
						if se, ok := ast.Unparen(c.Fun).(*ast.SelectorExpr); ok && se.Sel.Name == "BatchWriteDone" {
							recv = se.X
						}
					}
					return true
				})
				if recv == nil {
					continue
				}
				switch st := l.Stmt.(type) {
				case *ast.RangeStmt:
					// what is ranged over, with temporaries, accessors and helper parameters resolved
					head := Point{l.Head, 0}
					rx, rxpt := f.Resolve(st.X, head)
					xk := f.KeyAt(st.X, head)
					// the append-based representation: the collected objects are exactly the slice
					if af := collectorAppendField(p, pkg); af != "" && fieldSel(info, rx, af) {
						if st.Value != nil && objOfIdent(info, recv) != nil && objOfIdent(info, recv) == objOfIdent(info, st.Value) {
							okLoop = true
						}
						if ix, ok := ast.Unparen(recv).(*ast.IndexExpr); ok && st.Key != nil && rawKey(ix.Index) == rawKey(st.Key) && fieldSel(info, ix.X, af) {
							okLoop = true
						}
					}
					if strings.HasSuffix(xk, ".writtenValuesCounter") {
						if ix, ok := ast.Unparen(recv).(*ast.IndexExpr); ok && st.Key != nil && rawKey(ix.Index) == rawKey(st.Key) {
							if bx, _ := f.Resolve(ix.X, d); fieldSel(info, bx, "writtenValues") {
								okLoop = true
							}
						}
					}
					if sl, ok := ast.Unparen(rx).(*ast.SliceExpr); ok && fieldSel(info, sl.X, "writtenValues") && sl.Low == nil && sl.High != nil && strings.HasSuffix(f.KeyAt(sl.High, rxpt), ".writtenValuesCounter") {
						if st.Value != nil && objOfIdent(info, recv) != nil && objOfIdent(info, recv) == objOfIdent(info, st.Value) {
							okLoop = true
						}
					}
				case *ast.ForStmt:
					if st.Cond != nil && strings.Contains(rawKey(st.Cond), ".writtenValuesCounter") {
						if ix, ok := ast.Unparen(recv).(*ast.IndexExpr); ok && fieldSel(info, ix.X, "writtenValues") {
							okLoop = true
						}
					}
				}
			}
		}
		_ = fd
		if okLoop {
			r.Pass("collector/done-once-per-slot", key, p.posStr(fd.Pos()), "BatchWriteDone is called for slots 0..writtenValuesCounter-1")
		} else {
			r.Fail("collector/done-once-per-slot", key, p.posStr(fd.Pos()), "BatchWriteDone must be called once for each of the writtenValuesCounter collected slots")
		}
	}
	if f := p.CFGOf(pkg, "BatchCollector", "Add"); f == nil {
		r.Unresolved("collector/add-steps", "kvstore.BatchCollector.Add", "method not found")
	} else {
		key := "kvstore.BatchCollector.Add"
		steps := []struct {
			name string
			pred func(ast.Node) bool
		}{
			{"ResetBatchWriteScheduled", func(n ast.Node) bool {
				c, ok := n.(*ast.CallExpr)
				if !ok {
					return false
				}
				se, ok := ast.Unparen(c.Fun).(*ast.SelectorExpr)
				return ok && se.Sel.Name == "ResetBatchWriteScheduled"
			}},
			{"scheduledCount.Add(-1)", isCountAdd("-1")},
			{"BatchWrite(batchedMuts)", func(n ast.Node) bool {
				c, ok := n.(*ast.CallExpr)
				if !ok || len(c.Args) != 1 || !fieldSel(info, c.Args[0], "batchedMuts") {
					return false
				}
				se, ok := ast.Unparen(c.Fun).(*ast.SelectorExpr)
				return ok && se.Sel.Name == "BatchWrite"
			}},
			{"slot store", func(n ast.Node) bool {
				as, ok := n.(*ast.AssignStmt)
				if !ok || len(as.Lhs) != 1 {
					return false
				}
				ix, ok := ast.Unparen(as.Lhs[0]).(*ast.IndexExpr)
				return ok && fieldSel(info, ix.X, "writtenValues") && fieldSel(info, ix.Index, "writtenValuesCounter")
			}},
			{"writtenValuesCounter++", func(n ast.Node) bool {
				s, ok := n.(*ast.IncDecStmt)
				return ok && s.Tok == token.INC && fieldSel(info, s.X, "writtenValuesCounter")
			}},
		}
		if af := collectorAppendField(p, pkg); af != "" {
			// the append-based representation records the object in one step
			isAppend := func(n ast.Node) bool {
				as, ok := n.(*ast.AssignStmt)
				if !ok || len(as.Lhs) != 1 || len(as.Rhs) != 1 || !fieldSel(info, as.Lhs[0], af) {
					return false
				}
				c, ok := ast.Unparen(as.Rhs[0]).(*ast.CallExpr)
				return ok && rawKey(c.Fun) == "append"
			}
			steps = append(steps[:3], struct {
				name string
				pred func(ast.Node) bool
			}{"recorded with append", isAppend})
		}
		for _, st := range steps {
			if w, found := f.reach(f.entry(), &searchOpts{AvoidNode: st.pred}, func(pt Point, atExit bool) bool { return atExit }); found {
				r.Fail("collector/add-steps", key+" "+st.name, f.P.posStr(f.Body.Pos()), "a path through Add skips "+st.name, w...)
			} else {
				r.Pass("collector/add-steps", key+" "+st.name, f.P.posStr(f.Body.Pos()), "on every path")
			}
		}
		// the scheduled flag is cleared BEFORE the object is serialised: a modification followed by
		// Enqueue while the writer is marshalling must be scheduled again - with the reset after
		// BatchWrite that Enqueue finds the flag still set, is dropped, and the newer state is never written
		if ws := f.Find(steps[2].pred); len(ws) == 1 {
			if w, found := f.PathFromEntryAvoiding(ws[0], steps[0].pred, nil); found {
				r.Fail("collector/add-steps", key+" reset-before-serialise", f.PosOf(ws[0]), "the object is serialised (BatchWrite) before its scheduled flag is reset: an Enqueue of a newer state during the serialisation is dropped as already scheduled and never written", w...)
			} else {
				r.Pass("collector/add-steps", key+" reset-before-serialise", f.PosOf(ws[0]), "ResetBatchWriteScheduled precedes BatchWrite on every path")
			}
		}
		// slot store precedes the counter increment
		stores := f.Find(steps[3].pred)
		var incs []Point
		if len(steps) > 4 {
			incs = f.Find(steps[4].pred)
		}
		if len(steps) > 4 && len(stores) == 1 && len(incs) == 1 {
			if _, found := f.PathFromEntryAvoiding(incs[0], steps[3].pred, nil); found {
				r.Fail("collector/add-steps", key+" store-before-increment", f.PosOf(incs[0]), "the counter is advanced before the object is stored in its slot")
			} else {
				r.Pass("collector/add-steps", key+" store-before-increment", f.PosOf(incs[0]), "slot store precedes the increment")
			}
		}
	}

	// (4) typestate of the collector in the writer loop
	checkCollectorTypestate(r, p)

	// (5) start/stop
	checkGuards(r, p, "lock/guarded-by", []GuardRow{{Pkg: pkg, Type: "BatchedWriter", Mutex: "startStopMutex", Fields: []string{"running"},
		Mutators: map[string][]string{"running": {"Store", "Swap", "CompareAndSwap"}}, WOnly: true}})
	checkLockBalance(r, p, "lock/balance", []string{pkg}, nil, func(k string) bool { return hasPrefixAny(k, "kvstore.BatchedWriter.") })
	if f := p.CFGOf(pkg, "BatchedWriter", "StopBatchWriter"); f == nil {
		r.Unresolved("stop/clear-then-wait", "kvstore.BatchedWriter.StopBatchWriter", "method not found")
	} else {
		key := "kvstore.BatchedWriter.StopBatchWriter"
		// the flag is cleared by Store(false), or on the success edge of CompareAndSwap(true, false)
		clears := f.flagSetPoints("running", "false")
		isWait := func(n ast.Node) bool {
			c, ok := n.(*ast.CallExpr)
			if !ok {
				return false
			}
			se, ok := ast.Unparen(c.Fun).(*ast.SelectorExpr)
			return ok && se.Sel.Name == "Wait" && fieldSel(info, se.X, "writeWg")
		}
		if len(clears) == 0 {
			r.Fail("stop/clear-then-wait", key, f.P.posStr(f.Body.Pos()), "Stop never clears running")
		} else if w, found := f.reach(clears[0], &searchOpts{AvoidNode: isWait}, func(_ Point, atExit bool) bool { return atExit }); found {
			r.Fail("stop/clear-then-wait", key, f.PosOf(clears[0]), "after clearing running a path returns without waiting for the writer", w...)
		} else {
			r.Pass("stop/clear-then-wait", key, f.PosOf(clears[0]), "running.Store(false) is followed by writeWg.Wait() on every path")
		}
	}
}

// checkCollectorTypestate: DESIGN C08.4.
func checkCollectorTypestate(r *Reporter, p *Prog) {
	const pkg = "kvstore"
	const key = "kvstore.BatchedWriter.runBatchWriter"
	fd := p.FuncDecl(pkg, "BatchedWriter", "runBatchWriter")
	if fd == nil {
		r.Unresolved("collector/typestate", key, "method not found")
		return
	}
	info := p.Pkg(pkg).TypesInfo
	// a call creates a collector if it is newBatchCollector or a same-package helper that
	// (transitively, bounded) returns one
	var creates func(c *ast.CallExpr) bool
	{
		seen := map[*ast.FuncDecl]bool{}
		var bodyCreates func(fd *ast.FuncDecl, depth int) bool
		bodyCreates = func(fd *ast.FuncDecl, depth int) bool {
			if fd == nil || fd.Body == nil || depth > 3 || seen[fd] {
				return false
			}
			seen[fd] = true
			defer delete(seen, fd)
			found := false
			ast.Inspect(fd.Body, func(n ast.Node) bool {
				if rs, ok := n.(*ast.ReturnStmt); ok && len(rs.Results) >= 1 {
					res := ast.Unparen(rs.Results[0])
					if c, ok := res.(*ast.CallExpr); ok && creates(c) {
						found = true
					}
					// the constructor itself (function or method, whatever its name): returns a fresh collector
					if u, ok := res.(*ast.UnaryExpr); ok && u.Op == token.AND {
						res = ast.Unparen(u.X)
					}
					if cl, ok := res.(*ast.CompositeLit); ok && shortTypeName(typeName(info.TypeOf(cl))) == "BatchCollector" {
						found = true
					}
				}
				return !found
			})
			return found
		}
		creates = func(c *ast.CallExpr) bool {
			if t := info.TypeOf(c); t == nil || shortTypeName(typeName(t)) != "BatchCollector" {
				return false
			}
			if fn := staticCallee(info, c); fn != nil {
				if hd := p.decls().byFunc[fn.Origin()]; hd != nil && p.decls().infoOf[hd] == info {
					return bodyCreates(hd, 1)
				}
			}
			return false
		}
	}
	var active *Typestate
	// isCollector: the expression denotes the tracked collector variable, directly or as the
	// parameter of an expanded helper it was passed to
	var collector, flag, closureVar interface{}
	isCollector := func(e ast.Expr) bool {
		if o := objOfIdent(info, e); o != nil && o == collector {
			return true
		}
		if active != nil && collector != nil {
			// the collector variable itself, possibly seen through parameters of spliced helpers or
			// closures (identity of the variable, not of the value it currently holds)
			if cobj, isObj := collector.(types.Object); isObj && active.F.IsVar(e, active.Cur, cobj) {
				return true
			}
			if re, _ := active.F.Resolve(e, active.Cur); re != nil {
				if o := objOfIdent(info, re); o != nil && o == collector {
					return true
				}
			}
		}
		return false
	}
	var closure *ast.FuncLit
	ast.Inspect(fd.Body, func(n ast.Node) bool {
		as, ok := n.(*ast.AssignStmt)
		if !ok || as.Tok != token.DEFINE || len(as.Lhs) != 1 || len(as.Rhs) != 1 {
			return true
		}
		switch rhs := ast.Unparen(as.Rhs[0]).(type) {
		case *ast.CallExpr:
			if creates(rhs) && collector == nil {
				collector = objOfIdent(info, as.Lhs[0])
			}
		case *ast.Ident:
			if (rhs.Name == "false" || rhs.Name == "true") && flag == nil {
				flag = objOfIdent(info, as.Lhs[0])
			}
		case *ast.FuncLit:
			if closure == nil && rhs.Type.Params.NumFields() == 0 {
				closure = rhs
				closureVar = objOfIdent(info, as.Lhs[0])
			}
		}
		return true
	})
	if collector == nil {
		r.Fail("collector/typestate", key, p.posStr(fd.Pos()), "no collector variable (newBatchCollector) found in the writer loop")
		return
	}
	// state = "<collector>/<flag>", collector in {none,fresh,committed}, flag in {F,T}
	split := func(s string) (string, string) { i := strings.Index(s, "/"); return s[:i], s[i+1:] }
	var summaries map[string][]string
	var transfer func(n ast.Node, s string) ([]string, string)
	transfer = func(n ast.Node, s string) ([]string, string) {
		cs, fl := split(s)
		errMsg := ""
		states := []string{cs + "/" + fl}
		// process sub-nodes in source order
		inspectNoLit(n, func(c ast.Node) bool {
			if errMsg != "" {
				return false
			}
			switch x := c.(type) {
			case *ast.CallExpr:
				// closure call
				if id, ok := ast.Unparen(x.Fun).(*ast.Ident); ok && closureVar != nil && info.Uses[id] == closureVar {
					if active != nil && active.F.regionByCall(x) != nil {
						return true // the closure body was spliced in at this call: its events are in the graph
					}
					var out []string
					for _, st := range states {
						out = append(out, summaries[st]...)
					}
					states = uniq(out)
					return true
				}
				se, ok := ast.Unparen(x.Fun).(*ast.SelectorExpr)
				if !ok || !isCollector(se.X) {
					return true
				}
				var out []string
				for _, st := range states {
					c2, f2 := split(st)
					switch se.Sel.Name {
					case "Add":
						if c2 != "fresh" {
							errMsg = "Add on a collector that is " + c2 + " (objects handed to a committed collector are lost or panic)"
							return false
						}
						out = append(out, st)
					case "Commit":
						if c2 != "fresh" {
							errMsg = "Commit on a collector that is " + c2
							return false
						}
						out = append(out, "committed/"+f2)
					default:
						out = append(out, st)
					}
				}
				states = uniq(out)
			}
			return true
		})
		if errMsg != "" {
			return nil, errMsg
		}
		// assignments (evaluated after their right-hand sides)
		if as, ok := n.(*ast.AssignStmt); ok && len(as.Lhs) == 1 && len(as.Rhs) == 1 {
			lhs := objOfIdent(info, as.Lhs[0])
			var out []string
			for _, st := range states {
				c2, f2 := split(st)
				switch {
				case lhs != nil && lhs == collector:
					if ce, ok := ast.Unparen(as.Rhs[0]).(*ast.CallExpr); ok && creates(ce) {
						if c2 == "fresh" {
							return nil, "a collector that was never committed is replaced: everything added to it is lost"
						}
						out = append(out, "fresh/"+f2)
						continue
					}
					return nil, "collector variable assigned from something other than newBatchCollector"
				case lhs != nil && flag != nil && lhs == flag:
					switch exprKey(as.Rhs[0]) {
					case "true":
						out = append(out, c2+"/T")
					case "false":
						out = append(out, c2+"/F")
					default:
						out = append(out, c2+"/T", c2+"/F")
					}
					continue
				}
				out = append(out, st)
			}
			states = uniq(out)
		}
		return states, ""
	}
	filter := func(cond ast.Expr, branch bool, s string) bool {
		_, fl := split(s)
		for _, ft := range factsOn(cond, branch) {
			if flag != nil && objOfIdent(info, ft.Atom) == flag {
				if ft.Pol != (fl == "T") {
					return false
				}
			}
		}
		return true
	}
	nStates := 0
	var allViol []tsViolation
	// closure summaries
	summaries = map[string][]string{}
	if closure != nil {
		cf := newFuncCFG(p, info, closure.Body, key+"$collectValues")
		for _, cs := range []string{"none", "fresh", "committed"} {
			for _, fl := range []string{"F", "T"} {
				ts := &Typestate{F: cf, Transfer: transfer, Filter: filter}
				active = ts
				exits, viols := ts.Run([]string{cs + "/" + fl})
				if cs == "fresh" {
					allViol = append(allViol, viols...)
				}
				for e := range exits {
					summaries[cs+"/"+fl] = append(summaries[cs+"/"+fl], e)
					nStates++
				}
			}
		}
	}
	if os.Getenv("HC_DEBUG") != "" {
		fmt.Println("summaries", summaries, "closureVar", closureVar, "flag", flag, "collector", collector)
	}
	f := newFuncCFG(p, info, fd.Body, key)
	ts := &Typestate{F: f, Transfer: transfer, Filter: filter, AtExit: func(s string) string {
		cs, _ := split(s)
		if cs == "fresh" {
			return "the writer can terminate with an uncommitted collector"
		}
		return ""
	}}
	active = ts
	exits, viols := ts.Run([]string{"none/F"})
	allViol = append(allViol, viols...)
	nStates += len(exits)
	r.Count(nStates)
	if len(allViol) > 0 {
		for _, v := range allViol {
			r.Fail("collector/typestate", key, v.Pos, v.Msg, v.Path...)
		}
		return
	}
	if len(exits) == 0 {
		r.Fail("collector/typestate", key, p.posStr(fd.Pos()), "no normal exit reached by the exploration (row vacuous)")
		return
	}
	r.Pass("collector/typestate", key, p.posStr(fd.Pos()), fmt.Sprintf("every collector is committed exactly once on every path (closure summaries: %v; exit states: %v)", summaries["fresh/F"], keysOf(exits)))
}

func keysOf(m map[string]bool) []string {
	var out []string
	for k := range m {
		out = append(out, k)
	}
	sortStrings(out)
	return out
}

// collectorAppendField: the BatchCollector field that Add grows with append(F, object) - the
// append-based representation of the collected objects ("" when Add uses a pre-sized slice and a
// counter).
func collectorAppendField(p *Prog, pkg string) string {
	fd := p.FuncDecl(pkg, "BatchCollector", "Add")
	if fd == nil || fd.Body == nil {
		return ""
	}
	info := p.Pkg(pkg).TypesInfo
	params := paramObjs(info, fd)
	out := ""
	ast.Inspect(fd.Body, func(n ast.Node) bool {
		as, ok := n.(*ast.AssignStmt)
		if !ok || len(as.Lhs) != 1 || len(as.Rhs) != 1 {
			return true
		}
		lse, ok := ast.Unparen(as.Lhs[0]).(*ast.SelectorExpr)
		if !ok || info.Selections[lse] == nil || info.Selections[lse].Kind() != types.FieldVal {
			return true
		}
		c, ok := ast.Unparen(as.Rhs[0]).(*ast.CallExpr)
		if !ok || rawKey(c.Fun) != "append" || len(c.Args) != 2 || exprKey(c.Args[0]) != exprKey(lse) {
			return true
		}
		if len(params) == 1 && objOfIdent(info, c.Args[1]) == params[0] {
			out = lse.Sel.Name
		}
		return true
	})
	return out
}
