package main

// R-COND (DESIGN §2): condition-variable protocol.

import (
	"fmt"
	"go/ast"
	"go/types"
	"golang.org/x/tools/go/cfg"
	"sort"
	"strings"
)

type condInfo struct {
	Type   string // owner struct
	Cond   string // cond field
	Locker string // mutex field the Cond was built on
}

func isCondType(t types.Type) bool { return typeName(t) == "sync.Cond" }

// discoverConds reads the Cond<->Locker wiring out of the package's constructors:
// x.c = sync.NewCond(&x.m)   or   x.c.L = &x.m
func discoverConds(p *Prog, pkg string) []condInfo {
	pk := p.Pkg(pkg)
	if pk == nil {
		return nil
	}
	info := pk.TypesInfo
	var out []condInfo
	seen := map[string]bool{}
	add := func(owner types.Type, cond, locker string) {
		ci := condInfo{shortTypeName(typeName(owner)), cond, locker}
		k := ci.Type + "." + ci.Cond
		if !seen[k] {
			seen[k] = true
			out = append(out, ci)
		}
	}
	lockerOf := func(e ast.Expr) (string, bool) {
		u, ok := ast.Unparen(e).(*ast.UnaryExpr)
		if !ok {
			return "", false
		}
		se, ok := ast.Unparen(u.X).(*ast.SelectorExpr)
		if !ok {
			return "", false
		}
		return se.Sel.Name, true
	}
	for _, fd := range p.AllFuncDecls(pkg) {
		if fd.Body == nil {
			continue
		}
		ast.Inspect(fd.Body, func(n ast.Node) bool {
			as, ok := n.(*ast.AssignStmt)
			if !ok || len(as.Lhs) != 1 || len(as.Rhs) != 1 {
				return true
			}
			lhs, ok := ast.Unparen(as.Lhs[0]).(*ast.SelectorExpr)
			if !ok {
				return true
			}
			// x.c = sync.NewCond(&x.m)
			if c, ok := ast.Unparen(as.Rhs[0]).(*ast.CallExpr); ok && exprKey(c.Fun) == "sync.NewCond" && len(c.Args) == 1 && isCondType(info.TypeOf(lhs)) {
				if l, ok := lockerOf(c.Args[0]); ok {
					add(info.TypeOf(lhs.X), lhs.Sel.Name, l)
				}
			}
			// x.c.L = &x.m
			if lhs.Sel.Name == "L" {
				if inner, ok := ast.Unparen(lhs.X).(*ast.SelectorExpr); ok && isCondType(info.TypeOf(inner)) {
					if l, ok := lockerOf(as.Rhs[0]); ok {
						add(info.TypeOf(inner.X), inner.Sel.Name, l)
					}
				}
			}
			return true
		})
	}
	sort.Slice(out, func(i, j int) bool { return out[i].Type+out[i].Cond < out[j].Type+out[j].Cond })
	return out
}

// condCall classifies <base>.<condField>.<Wait|Signal|Broadcast>() and returns the cond field and base path.
func condCall(info *types.Info, c *ast.CallExpr) (method, condField, basePath string, ok bool) {
	se, isSel := ast.Unparen(c.Fun).(*ast.SelectorExpr)
	if !isSel || (se.Sel.Name != "Wait" && se.Sel.Name != "Signal" && se.Sel.Name != "Broadcast") {
		return
	}
	if !isCondType(info.TypeOf(se.X)) {
		return
	}
	inner, isSel := ast.Unparen(se.X).(*ast.SelectorExpr)
	if !isSel {
		return
	}
	bp, okp := pathOf(info, inner.X)
	if !okp {
		return
	}
	return se.Sel.Name, inner.Sel.Name, bp, true
}

func findCond(conds []condInfo, typ, field string) *condInfo {
	for i := range conds {
		if conds[i].Type == typ && conds[i].Cond == field {
			return &conds[i]
		}
	}
	return nil
}

// checkCondProtocol applies rule (1) to every Wait and rule (4) to every Signal/Broadcast of
// the package. lockingHelpers: methods that enter (and leave) a critical section of the
// receiver's locker on all paths, name -> locker field (discovered, see summariseLockers).
func checkCondProtocol(r *Reporter, p *Prog, pkg string, conds []condInfo, minWaits, minSignals int) {
	pk := p.Pkg(pkg)
	info := pk.TypesInfo
	helpers := summariseLockers(p, pkg)
	nWaits, nSignals := 0, 0
	for _, fd := range p.AllFuncDecls(pkg) {
		if fd.Body == nil || strings.HasSuffix(p.Fset.Position(fd.Pos()).Filename, "_test.go") {
			continue
		}
		fkey := funcKey(pkg, fd)
		recvT := recvTypeName(fd)
		// (1) waits
		seen := map[ast.Node]bool{}
		AnalyzeLocks(fd.Body, LockSet{}, &FlowOpts{Info: info}, func(n ast.Node, stack []ast.Node, held LockSet) {
			c, ok := n.(*ast.CallExpr)
			if !ok || seen[c] {
				return
			}
			m, cf, bp, ok := condCall(info, c)
			if !ok || m != "Wait" {
				return
			}
			seen[c] = true
			nWaits++
			key := fmt.Sprintf("%s.Wait in %s", cf, fkey)
			ci := findCond(conds, recvT, cf)
			if ci == nil {
				r.Fail("cond/wait-in-loop-under-locker", key, p.posStr(c.Pos()), "the condition variable's Locker is unknown (no NewCond/.L wiring found)")
				return
			}
			inLoop := false
			var loopCond ast.Expr
			for i := len(stack) - 1; i >= 0; i-- {
				if fs, ok := stack[i].(*ast.ForStmt); ok {
					inLoop = true
					loopCond = fs.Cond
					break
				}
			}
			// go/cfg flattens statements, so the stack does not contain the ForStmt: look it up lexically
			if !inLoop {
				ast.Inspect(fd.Body, func(m ast.Node) bool {
					if fs, ok := m.(*ast.ForStmt); ok && fs.Body.Pos() <= c.Pos() && c.End() <= fs.Body.End() {
						inLoop = true
						loopCond = fs.Cond
					}
					return true
				})
			}
			switch {
			case !inLoop:
				r.Fail("cond/wait-in-loop-under-locker", key, p.posStr(c.Pos()), "Wait is not inside a for loop that re-tests the predicate: a spurious or stale wake-up proceeds without the condition holding")
			case held[bp+"."+ci.Locker] < ModeW:
				// an unexported helper that is only ever called with the Locker held (the wait loop
				// extracted from the locking method) is fine: the obligation is on its call sites
				if why, ok := callersHold(p, pkg, fd, ci.Locker); ok {
					r.Pass("cond/wait-in-loop-under-locker", key, p.posStr(c.Pos()), "in a loop; the Locker "+ci.Locker+" is held at every call site of this helper ("+why+")")
				} else {
					r.Fail("cond/wait-in-loop-under-locker", key, p.posStr(c.Pos()), fmt.Sprintf("Wait without holding the Cond's Locker %s exclusively (held %s; %s)", ci.Locker, held, why))
				}
			default:
				pred := "<none>"
				if loopCond != nil {
					pred = exprKey(loopCond)
				}
				// ... and held CONTINUOUSLY from the test of the predicate to Wait: a release in between
				// (directly or inside a helper called in the loop before the Wait) lets a signaller change
				// the state and signal while nobody is parked - the waiter then parks on a stale test
				if rel := releasedBeforeWait(p, pkg, info, fd, c, bp+"."+ci.Locker, ci.Locker); rel != "" {
					r.Fail("cond/wait-in-loop-under-locker", key, p.posStr(c.Pos()), "the Locker "+ci.Locker+" is released between the test of the predicate and Wait ("+rel+"): a state change and its wake-up that fall into the gap are missed, the waiter parks although its predicate no longer holds (lost wake-up)")
				} else {
					r.Pass("cond/wait-in-loop-under-locker", key, p.posStr(c.Pos()), "in a loop on "+pred+" with "+ci.Locker+" held")
				}
			}
		})
		// (4) signals: each enclosing function body (declaration or literal) separately
		type unit struct {
			body     *ast.BlockStmt
			deferred bool
			outer    *ast.BlockStmt
			// a deferred helper METHOD: the helper's receiver path and the receiver expression's
			// path at the defer statement (the same object seen from the two functions)
			helperRecv, callerRecv string
		}
		units := []unit{{fd.Body, false, nil, "", ""}}
		if deferredOnlyHelper(p, pkg, fd) {
			units = nil // its signals are judged at the defer statements that run it
		}
		if fd.Recv != nil && splicedEverywhere(p, pkg, fd) {
			units = nil // a signalling helper: its signals are judged inside every caller it is spliced into
		}
		var stack []ast.Node
		ast.Inspect(fd.Body, func(n ast.Node) bool {
			if n == nil {
				stack = stack[:len(stack)-1]
				return true
			}
			stack = append(stack, n)
			if lit, ok := n.(*ast.FuncLit); ok {
				deferred := false
				if len(stack) >= 3 {
					if call, ok := stack[len(stack)-2].(*ast.CallExpr); ok && call.Fun == ast.Expr(lit) {
						if _, ok := stack[len(stack)-3].(*ast.DeferStmt); ok {
							deferred = true
						}
					}
				}
				units = append(units, unit{lit.Body, deferred, fd.Body, "", ""})
			}
			if ds, ok := n.(*ast.DeferStmt); ok {
				if se, ok := ast.Unparen(ds.Call.Fun).(*ast.SelectorExpr); ok {
					if fn, _ := info.Uses[se.Sel].(*types.Func); fn != nil {
						if hd := p.decls().byFunc[fn.Origin()]; hd != nil && hd.Recv != nil && !hd.Name.IsExported() && p.decls().infoOf[hd] == info && deferredOnlyHelper(p, pkg, hd) {
							if ro := recvObj(info, hd); ro != nil {
								if cp, okp := pathOf(info, se.X); okp {
									units = append(units, unit{hd.Body, true, fd.Body, fmt.Sprintf("%s@%d", ro.Name(), ro.Pos()), cp})
								}
							}
						}
					}
				}
			}
			return true
		})
		for _, u := range units {
			f := newFuncCFG(p, info, u.body, fkey)
			// lockset at each signal inside this unit
			heldAt := map[ast.Node]LockSet{}
			AnalyzeLocks(u.body, LockSet{}, &FlowOpts{Info: info}, func(n ast.Node, stack []ast.Node, held LockSet) {
				if c, ok := n.(*ast.CallExpr); ok {
					if _, exists := heldAt[c]; !exists {
						heldAt[c] = held
					}
				}
			})
			for _, pt := range f.Find(func(n ast.Node) bool {
				c, ok := n.(*ast.CallExpr)
				if !ok {
					return false
				}
				m, _, _, ok := condCall(info, c)
				return ok && m != "Wait"
			}) {
				var call *ast.CallExpr
				inspectNoLit(f.nodeAt(pt), func(n ast.Node) bool {
					if c, ok := n.(*ast.CallExpr); ok && call == nil {
						if m, _, _, ok := condCall(info, c); ok && m != "Wait" {
							call = c
						}
					}
					return call == nil
				})
				m, cf, bp, _ := condCall(info, call)
				bp = f.MapPath(bp, pt) // a signal inside a spliced helper: in the caller's frame
				nSignals++
				key := fmt.Sprintf("%s.%s in %s", cf, m, fkey)
				ci := findCond(conds, recvT, cf)
				if ci == nil {
					r.Fail("cond/signal-after-section", key, p.posStr(call.Pos()), "the condition variable's Locker is unknown")
					continue
				}
				lockerPath := bp + "." + ci.Locker
				if u.helperRecv != "" && strings.HasPrefix(lockerPath, u.helperRecv) {
					lockerPath = u.callerRecv + strings.TrimPrefix(lockerPath, u.helperRecv)
					bp = u.callerRecv + strings.TrimPrefix(bp, u.helperRecv)
				}
				if heldAt[call][lockerPath] >= ModeR {
					r.Pass("cond/signal-after-section", key, p.posStr(call.Pos()), "issued while holding "+ci.Locker)
					continue
				}
				entersSection := func(n ast.Node) bool {
					c, ok := n.(*ast.CallExpr)
					if !ok {
						return false
					}
					npt, _ := f.PointOf(c)
					if op, path := lockOp(info, c); (op == "Lock" || op == "RLock") && (path == lockerPath || f.MapPath(path, npt) == lockerPath) {
						return true
					}
					if se, ok := ast.Unparen(c.Fun).(*ast.SelectorExpr); ok {
						if b2, okp := pathOf(info, se.X); okp && (b2 == bp || f.MapPath(b2, npt) == bp) && helpers[recvT+"."+se.Sel.Name] == ci.Locker {
							return true
						}
					}
					return false
				}
				var wit []string
				var found bool
				if u.deferred {
					of := newFuncCFG(p, info, u.outer, fkey)
					wit, found = of.reach(of.entry(), &searchOpts{AvoidNode: entersSection}, func(pt Point, atExit bool) bool { return atExit })
				} else {
					wit, found = f.PathFromEntryAvoiding(pt, entersSection, nil)
				}
				if found {
					r.Fail("cond/signal-after-section", key, p.posStr(call.Pos()), fmt.Sprintf("%s is issued without ever entering a critical section of %s: a waiter that has tested its predicate under %s but has not parked yet misses this wake-up (lost wake-up)", m, ci.Locker, ci.Locker), wit...)
				} else {
					r.Pass("cond/signal-after-section", key, p.posStr(call.Pos()), "issued after a critical section of "+ci.Locker+" on every path")
				}
			}
		}
	}
	checkCondBroadcast(r, p, pkg)
	// floors are non-vacuity only: how many wait loops or signalling sites the code is written with is
	// not part of any property (two wait loops merged into one helper are one site)
	if minWaits > 1 {
		minWaits = 1
	}
	if minSignals > 1 {
		minSignals = 1
	}
	if nWaits < minWaits {
		r.Fail("cond/wait-in-loop-under-locker", pkg, "-", fmt.Sprintf("expected at least %d Wait sites, found %d (vacuous)", minWaits, nWaits))
	}
	if nSignals < minSignals {
		r.Fail("cond/signal-after-section", pkg, "-", fmt.Sprintf("expected at least %d Signal/Broadcast sites, found %d (vacuous)", minSignals, nSignals))
	}
}

// releasedBeforeWait: inside the innermost for loop around the Wait call, lexically before the Wait
// (loop condition included), is the Cond's Locker released - by an Unlock of lockerPath, or by a call
// of a function of the package on the same base object whose body (to depth 3) unlocks that field of
// its receiver? Returns where, or "".
func releasedBeforeWait(p *Prog, pkg string, info *types.Info, fd *ast.FuncDecl, wait *ast.CallExpr, lockerPath, locker string) string {
	var loop *ast.ForStmt
	ast.Inspect(fd.Body, func(m ast.Node) bool {
		if fs, ok := m.(*ast.ForStmt); ok && fs.Body.Pos() <= wait.Pos() && wait.End() <= fs.Body.End() {
			loop = fs
		}
		return true
	})
	if loop == nil {
		return ""
	}
	base := strings.TrimSuffix(lockerPath, "."+locker)
	di := p.decls()
	var releases func(cd *ast.FuncDecl, depth int, seen map[*ast.FuncDecl]bool) bool
	releases = func(cd *ast.FuncDecl, depth int, seen map[*ast.FuncDecl]bool) bool {
		if cd == nil || cd.Body == nil || depth <= 0 || seen[cd] {
			return false
		}
		seen[cd] = true
		ro := recvObj(info, cd)
		if ro == nil {
			return false
		}
		rp := fmt.Sprintf("%s@%d", ro.Name(), ro.Pos())
		hit := false
		ast.Inspect(cd.Body, func(n ast.Node) bool {
			cl, ok := n.(*ast.CallExpr)
			if !ok || hit {
				return !hit
			}
			if op, path := lockOp(info, cl); (op == "Unlock" || op == "RUnlock") && path == rp+"."+locker {
				hit = true
				return false
			}
			if se, ok := ast.Unparen(cl.Fun).(*ast.SelectorExpr); ok {
				if b2, okp := pathOf(info, se.X); okp && b2 == rp {
					if fn, _ := info.Uses[se.Sel].(*types.Func); fn != nil {
						if sub := di.byFunc[fn.Origin()]; sub != nil && di.infoOf[sub] == info && releases(sub, depth-1, seen) {
							hit = true
						}
					}
				}
			}
			return !hit
		})
		return hit
	}
	where := ""
	// a release counts only if the Wait can be reached from it without the predicate being tested again
	f := newFuncCFGPlain(p, info, fd.Body, "")
	reachesWait := func(cl *ast.CallExpr) bool {
		pt, ok := f.PointOf(cl)
		if !ok {
			return true
		}
		// the predicate is tested again by the loop condition itself or by another branch on the same
		// relation (or its negation) - `if len != 0 { break }` after the lock was taken again
		var loopRel, loopNeg Rel
		haveRel := false
		if loop.Cond != nil {
			if rl, ok := relOf(loop.Cond); ok {
				loopRel, loopNeg, haveRel = rl, negRel(rl), true
			}
		}
		retest := func(n ast.Node) bool {
			if loop.Cond == nil {
				return false
			}
			if n == ast.Node(loop.Cond) {
				return true
			}
			if e, isExpr := n.(ast.Expr); isExpr && haveRel {
				if rl, ok := relOf(e); ok && (rl == loopRel || rl == loopNeg) {
					return true
				}
			}
			return false
		}
		_, found := f.reach(Point{pt.B, pt.I + 1}, &searchOpts{AvoidNode: func(n ast.Node) bool {
			// only whole condition nodes of the graph count (not sub-expressions of other statements)
			return retest(n)
		}}, func(q Point, atExit bool) bool {
			if atExit {
				return false
			}
			hit := false
			inspectNoLit(f.nodeAt(q), func(m ast.Node) bool {
				if m == ast.Node(wait) {
					hit = true
				}
				return !hit
			})
			return hit
		})
		return found
	}
	visit := func(root ast.Node) {
		if root == nil {
			return
		}
		ast.Inspect(root, func(n ast.Node) bool {
			if _, isLit := n.(*ast.FuncLit); isLit {
				return false
			}
			cl, ok := n.(*ast.CallExpr)
			if !ok || where != "" || cl.Pos() >= wait.Pos() {
				return where == ""
			}
			if op, path := lockOp(info, cl); (op == "Unlock" || op == "RUnlock") && path == lockerPath && reachesWait(cl) {
				where = p.posStr(cl.Pos()) + ": " + exprKey(cl)
				return false
			}
			if se, ok := ast.Unparen(cl.Fun).(*ast.SelectorExpr); ok {
				if b2, okp := pathOf(info, se.X); okp && b2 == base {
					if fn, _ := info.Uses[se.Sel].(*types.Func); fn != nil {
						if sub := di.byFunc[fn.Origin()]; sub != nil && di.infoOf[sub] == info && releases(sub, 3, map[*ast.FuncDecl]bool{}) && reachesWait(cl) {
							where = p.posStr(cl.Pos()) + ": " + exprKey(cl.Fun) + " unlocks " + locker
							return false
						}
					}
				}
			}
			return true
		})
	}
	visit(loop.Cond)
	visit(loop.Body)
	return where
}

// summariseLockers: "Type.method" -> locker field, for methods that acquire <recv>.<field>
// (a sync mutex) on every path from entry to exit.
func summariseLockers(p *Prog, pkg string) map[string]string {
	pk := p.Pkg(pkg)
	info := pk.TypesInfo
	out := map[string]string{}
	for _, fd := range p.AllFuncDecls(pkg) {
		if fd.Body == nil || fd.Recv == nil || len(fd.Recv.List[0].Names) == 0 {
			continue
		}
		recvObj := info.Defs[recvIdentOf(fd)]
		if recvObj == nil {
			continue
		}
		recvPath := fmt.Sprintf("%s@%d", recvObj.Name(), recvObj.Pos())
		fields := map[string]bool{}
		inspectNoLit(fd.Body, func(n ast.Node) bool {
			if c, ok := n.(*ast.CallExpr); ok {
				if op, path := lockOp(info, c); (op == "Lock" || op == "RLock") && strings.HasPrefix(path, recvPath+".") {
					fields[strings.TrimPrefix(path, recvPath+".")] = true
				}
			}
			return true
		})
		for fld := range fields {
			f := newFuncCFG(p, info, fd.Body, "")
			_, found := f.reach(f.entry(), &searchOpts{AvoidNode: func(n ast.Node) bool {
				c, ok := n.(*ast.CallExpr)
				if !ok {
					return false
				}
				op, path := lockOp(info, c)
				return (op == "Lock" || op == "RLock") && path == recvPath+"."+fld
			}}, func(pt Point, atExit bool) bool { return atExit })
			if !found {
				out[recvTypeName(fd)+"."+fd.Name.Name] = fld
			}
		}
	}
	return out
}

// wakeRow: after a state change matched by Change, every path to a normal exit must pass a
// Signal/Broadcast on one of Conds, unless it crosses an edge on which Exempt holds.
type wakeRow struct {
	Name   string
	Change func(ast.Node) bool
	Conds  []string
	// Exempt: facts that imply nobody can be waiting for this change (relation on the edge).
	Exempt func(Rel) bool
}

func checkWakeRow(r *Reporter, p *Prog, pkg, typ, method string, row wakeRow) {
	f := p.CFGOf(pkg, typ, method)
	key := fmt.Sprintf("%s.%s.%s %s", pkg, typ, method, row.Name)
	if f == nil {
		r.Unresolved("cond/wake-obligation", key, "method not found")
		return
	}
	info := f.Info
	changes := f.Find(row.Change)
	if len(changes) == 0 {
		r.Fail("cond/wake-obligation", key, f.P.posStr(f.Body.Pos()), "state change not found (row vacuous)")
		return
	}
	isWake := func(n ast.Node) bool {
		c, ok := n.(*ast.CallExpr)
		if !ok {
			return false
		}
		m, cf, _, ok := condCall(info, c)
		if !ok || m == "Wait" {
			return false
		}
		for _, want := range row.Conds {
			if cf == want {
				return true
			}
		}
		return false
	}
	exemptEdges := map[Edge]bool{}
	if row.Exempt != nil {
		for _, e := range f.RelEdgesAt(row.Exempt) {
			exemptEdges[e] = true
		}
		// false edge of a conjunction whose atoms are all negations of exempt facts
		for _, b := range f.G.Blocks {
			c := condOf(b)
			if c == nil || !b.Live {
				continue
			}
			atoms := f.EdgeFacts(b, true)
			if len(atoms) < 2 {
				continue
			}
			all := true
			for _, a := range atoms {
				rel, ok := relOfWith(a.Atom, func(x ast.Expr) string { return f.KeyAt(x, Point{b, len(b.Nodes) - 1}) })
				if !ok {
					all = false
					break
				}
				if !a.Pol {
					rel = negRel(rel)
				}
				if !row.Exempt(negRel(rel)) {
					all = false
				}
			}
			if all {
				exemptEdges[Edge{b, 1}] = true
			}
		}
	}
	// wake-ups issued through a local function variable that is bound to a method value of a condition
	// variable (`wake := f.readerCond.Broadcast; if writers > 0 { wake = f.writerCond.Signal }; wake()`):
	// the call wakes the condition whose method value the variable holds on that path
	wakeVars := map[types.Object]bool{}
	condOfMethodValue := func(e ast.Expr) (string, bool) {
		se, ok := ast.Unparen(e).(*ast.SelectorExpr)
		if !ok || (se.Sel.Name != "Signal" && se.Sel.Name != "Broadcast") || !isCondType(info.TypeOf(se.X)) {
			return "", false
		}
		inner, ok := ast.Unparen(se.X).(*ast.SelectorExpr)
		if !ok {
			return "", false
		}
		return inner.Sel.Name, true
	}
	for _, b := range f.G.Blocks {
		if !b.Live {
			continue
		}
		for _, nd := range b.Nodes {
			if as, ok := nd.(*ast.AssignStmt); ok && len(as.Lhs) == len(as.Rhs) {
				for i, rhs := range as.Rhs {
					if _, isMV := condOfMethodValue(rhs); isMV {
						if o := objOfIdent(info, as.Lhs[i]); o != nil {
							wakeVars[o] = true
						}
					}
				}
			}
		}
	}
	wanted := func(cf string) bool {
		for _, want := range row.Conds {
			if cf == want {
				return true
			}
		}
		return false
	}
	// searchWithVars: is the exit reachable from `from` without a wake of a wanted condition, tracking
	// per path what each wake variable currently holds
	searchWithVars := func(from Point) ([]string, bool) {
		type vstate map[types.Object]int8 // 1: holds a wanted condition's wake, -1: something else
		enc := func(b *cfg.Block, vs vstate) string {
			k := fmt.Sprintf("%p", b)
			var objs []string
			for o, v := range vs {
				objs = append(objs, fmt.Sprintf("%d:%d", o.Pos(), v))
			}
			sort.Strings(objs)
			return k + strings.Join(objs, ",")
		}
		init := vstate{}
		for o := range wakeVars {
			defs, fromEntry := f.ReachingDefs(from, o)
			all := len(defs) > 0 && !fromEntry
			for _, d := range defs {
				cf, isMV := condOfMethodValue(d.Rhs)
				if d.Rhs == nil || !isMV || !wanted(cf) {
					all = false
				}
			}
			if all {
				init[o] = 1
			} else {
				init[o] = -1
			}
		}
		type item struct {
			b    *cfg.Block
			i    int
			vs   vstate
			path []string
		}
		seen := map[string]bool{}
		queue := []item{{from.B, from.I, init, nil}}
		for len(queue) > 0 {
			it := queue[0]
			queue = queue[1:]
			if !it.b.Live {
				continue
			}
			if it.i == 0 {
				k := enc(it.b, it.vs)
				if seen[k] {
					continue
				}
				seen[k] = true
			}
			vs := it.vs
			stopped := false
			for i := it.i; i < len(it.b.Nodes) && !stopped; i++ {
				nd := it.b.Nodes[i]
				inspectNoLit(nd, func(m ast.Node) bool {
					if stopped {
						return false
					}
					if isWake(m) {
						stopped = true
						return false
					}
					if c, ok := m.(*ast.CallExpr); ok {
						if o := objOfIdent(info, c.Fun); o != nil && wakeVars[o] && vs[o] == 1 {
							stopped = true
							return false
						}
					}
					return true
				})
				if as, ok := nd.(*ast.AssignStmt); ok && !stopped && len(as.Lhs) == len(as.Rhs) {
					for k, l := range as.Lhs {
						if o := objOfIdent(info, l); o != nil && wakeVars[o] {
							nv := vstate{}
							for o2, v2 := range vs {
								nv[o2] = v2
							}
							if cf, isMV := condOfMethodValue(as.Rhs[k]); isMV && wanted(cf) {
								nv[o] = 1
							} else {
								nv[o] = -1
							}
							vs = nv
						}
					}
				}
			}
			if stopped {
				continue
			}
			path := it.path
			if len(it.b.Nodes) > 0 {
				path = append(append([]string{}, path...), f.P.posStr(it.b.Nodes[0].Pos()))
			}
			if f.isExitBlock(it.b) {
				return append(path, "exit"), true
			}
			for si, sb := range it.b.Succs {
				if exemptEdges[Edge{it.b, si}] {
					continue
				}
				queue = append(queue, item{sb, 0, vs, path})
			}
		}
		return nil, false
	}
	for _, ch := range changes {
		var w []string
		var found bool
		if len(wakeVars) > 0 {
			w, found = searchWithVars(Point{ch.B, ch.I + 1})
		} else {
			w, found = f.reach(Point{ch.B, ch.I + 1}, &searchOpts{AvoidNode: isWake, AvoidEdge: func(e Edge) bool { return exemptEdges[e] }}, func(pt Point, atExit bool) bool { return atExit })
		}
		if found {
			r.Fail("cond/wake-obligation", key, f.PosOf(ch), fmt.Sprintf("after this state change a path reaches the exit without Signal/Broadcast on %v: a blocked waiter is never woken", row.Conds), w...)
		} else {
			r.Pass("cond/wake-obligation", key, f.PosOf(ch), fmt.Sprintf("every path to the exit wakes %v (or crosses an edge that proves nobody waits)", row.Conds))
		}
	}
}

// checkCondBroadcast: when the goroutines parked on one sync.Cond wait for DIFFERENT predicates
// (several wait sites with different loop conditions, or a loop condition that mentions a
// parameter of the waiting function, e.g. a threshold), a state change must wake all of them:
// Signal wakes one waiter, possibly one whose predicate is still false - it re-waits and the
// wake-up is lost for the waiter whose predicate became true. With one shared predicate Signal
// is fine and is accepted.
func checkCondBroadcast(r *Reporter, p *Prog, pkg string) {
	info := p.Pkg(pkg).TypesInfo
	type site struct{ pos, fn, what string }
	waits := map[string][]site{}   // Type.cond -> wait predicates
	signals := map[string][]site{} // Type.cond -> Signal sites
	param := map[string]bool{}     // Type.cond -> some predicate mentions a parameter
	for _, fd := range p.AllFuncDecls(pkg) {
		if fd.Body == nil || strings.HasSuffix(p.Fset.Position(fd.Pos()).Filename, "_test.go") {
			continue
		}
		recvT := recvTypeName(fd)
		params := map[types.Object]bool{}
		for _, o := range paramObjs(info, fd) {
			if o != nil {
				params[o] = true
			}
		}
		ast.Inspect(fd.Body, func(n ast.Node) bool {
			c, ok := n.(*ast.CallExpr)
			if !ok {
				return true
			}
			m, cf, _, ok := condCall(info, c)
			if !ok {
				return true
			}
			k := recvT + "." + cf
			switch m {
			case "Wait":
				var loopCond ast.Expr
				ast.Inspect(fd.Body, func(x ast.Node) bool {
					if fs, ok := x.(*ast.ForStmt); ok && fs.Body.Pos() <= c.Pos() && c.End() <= fs.Body.End() {
						loopCond = fs.Cond
					}
					return true
				})
				pred := "<none>"
				if loopCond != nil {
					pred = exprKey(loopCond)
					ast.Inspect(loopCond, func(x ast.Node) bool {
						if id, ok := x.(*ast.Ident); ok && params[info.Uses[id]] {
							param[k] = true
						}
						return true
					})
				}
				waits[k] = append(waits[k], site{p.posStr(c.Pos()), funcKey(pkg, fd), pred})
			case "Signal":
				signals[k] = append(signals[k], site{p.posStr(c.Pos()), funcKey(pkg, fd), "Signal"})
			}
			return true
		})
	}
	for k, ws := range waits {
		preds := map[string]bool{}
		for _, w := range ws {
			preds[w.what] = true
		}
		differ := len(preds) > 1 || param[k]
		var plist []string
		for pr := range preds {
			plist = append(plist, pr)
		}
		sort.Strings(plist)
		key := "wake-ups of " + pkg + "." + k
		switch {
		case !differ:
			r.Pass("cond/broadcast-when-waiters-differ", key, ws[0].pos, "all waiters share one predicate ("+strings.Join(plist, ", ")+"): Signal or Broadcast both suffice")
		case len(signals[k]) > 0:
			var bad []string
			for _, sg := range signals[k] {
				bad = append(bad, sg.pos+": Signal in "+sg.fn)
			}
			r.Fail("cond/broadcast-when-waiters-differ", key, signals[k][0].pos, fmt.Sprintf("waiters on this condition variable wait for different predicates (%s%s) but %s wakes only one of them: a waiter whose predicate is still false can consume the wake-up and the waiter whose predicate became true sleeps on (lost wake-up)", strings.Join(plist, " / "), map[bool]string{true: "; a predicate depends on the waiter's argument", false: ""}[param[k]], bad[0]), bad...)
		default:
			r.Pass("cond/broadcast-when-waiters-differ", key, ws[0].pos, fmt.Sprintf("waiters differ (%s) and every wake-up is a Broadcast", strings.Join(plist, " / ")))
		}
	}
}

// callersHold: fd is an unexported method whose every use in the package is a direct call
// x.fd(...) made while x.<locker> is held exclusively (transitively through further such
// helpers, bounded). Returns a description of the call sites.
func callersHold(p *Prog, pkg string, fd *ast.FuncDecl, locker string) (string, bool) {
	return callersHoldDepth(p, pkg, fd, locker, 0)
}

func callersHoldDepth(p *Prog, pkg string, fd *ast.FuncDecl, locker string, depth int) (string, bool) {
	if fd.Recv == nil || fd.Name.IsExported() || depth > 3 {
		return "not an unexported method", false
	}
	info := p.Pkg(pkg).TypesInfo
	target, _ := info.Defs[fd.Name].(*types.Func)
	if target == nil {
		return "method object not found", false
	}
	nCalls := 0
	var sites []string
	for _, caller := range p.AllFuncDecls(pkg) {
		if caller.Body == nil || strings.HasSuffix(p.Fset.Position(caller.Pos()).Filename, "_test.go") {
			continue
		}
		// any use that is not a direct call disqualifies
		bad := ""
		var calls []*ast.CallExpr
		var stack []ast.Node
		ast.Inspect(caller.Body, func(n ast.Node) bool {
			if n == nil {
				stack = stack[:len(stack)-1]
				return true
			}
			stack = append(stack, n)
			se, ok := n.(*ast.SelectorExpr)
			if !ok {
				return true
			}
			fn, _ := info.Uses[se.Sel].(*types.Func)
			if fn == nil || fn.Origin() != target {
				return true
			}
			if len(stack) >= 2 {
				if c, ok := stack[len(stack)-2].(*ast.CallExpr); ok && ast.Unparen(c.Fun) == ast.Expr(se) {
					if len(stack) >= 3 {
						switch stack[len(stack)-3].(type) {
						case *ast.GoStmt, *ast.DeferStmt:
							bad = "started with go/defer at " + p.posStr(c.Pos())
						}
					}
					calls = append(calls, c)
					return true
				}
			}
			bad = "used as a method value at " + p.posStr(se.Pos())
			return true
		})
		if bad != "" {
			return bad, false
		}
		if len(calls) == 0 {
			continue
		}
		heldAt := map[*ast.CallExpr]LockSet{}
		AnalyzeLocks(caller.Body, LockSet{}, &FlowOpts{Info: info}, func(n ast.Node, _ []ast.Node, held LockSet) {
			if c, ok := n.(*ast.CallExpr); ok {
				if _, seen := heldAt[c]; !seen {
					heldAt[c] = held
				}
			}
		})
		for _, c := range calls {
			nCalls++
			se := ast.Unparen(c.Fun).(*ast.SelectorExpr)
			base, ok := pathOf(info, se.X)
			if !ok {
				return "receiver of the call at " + p.posStr(c.Pos()) + " is not an access path", false
			}
			if heldAt[c][base+"."+locker] >= ModeW {
				sites = append(sites, funcKey(pkg, caller))
				continue
			}
			// the caller may itself be such a helper
			if why, ok := callersHoldDepth(p, pkg, caller, locker, depth+1); ok && recvTypeName(caller) == recvTypeName(fd) {
				sites = append(sites, funcKey(pkg, caller)+" <- "+why)
				continue
			}
			return fmt.Sprintf("call at %s without %s held (held %s)", p.posStr(c.Pos()), locker, heldAt[c]), false
		}
	}
	if nCalls == 0 {
		return "no call site", false
	}
	return strings.Join(dedupe(sites), ", "), true
}

// deferredOnlyHelper: an unexported method whose every use in the package is `defer x.m(...)`.
func deferredOnlyHelper(p *Prog, pkg string, fd *ast.FuncDecl) bool {
	if fd.Recv == nil || fd.Name.IsExported() {
		return false
	}
	info := p.Pkg(pkg).TypesInfo
	target, _ := info.Defs[fd.Name].(*types.Func)
	if target == nil {
		return false
	}
	n, ok := 0, true
	for _, caller := range p.AllFuncDecls(pkg) {
		if caller.Body == nil {
			continue
		}
		var stack []ast.Node
		ast.Inspect(caller.Body, func(m ast.Node) bool {
			if m == nil {
				stack = stack[:len(stack)-1]
				return true
			}
			stack = append(stack, m)
			se, isSel := m.(*ast.SelectorExpr)
			if !isSel {
				return true
			}
			if fn, _ := info.Uses[se.Sel].(*types.Func); fn == nil || fn.Origin() != target {
				return true
			}
			n++
			if len(stack) >= 3 {
				if c, isCall := stack[len(stack)-2].(*ast.CallExpr); isCall && ast.Unparen(c.Fun) == ast.Expr(se) {
					if _, isDefer := stack[len(stack)-3].(*ast.DeferStmt); isDefer {
						return true
					}
				}
			}
			ok = false
			return true
		})
	}
	return ok && n > 0
}
