package main

// R-CMP helpers: normalise comparisons so that `a >= b`, `b <= a`, `!(a < b)` are one relation.

import (
	"go/ast"
	"go/token"
	"go/types"
	"golang.org/x/tools/go/cfg"
	"strings"
)

// exprKey renders an expression structurally with local roots erased to their names
// (field paths keep their selectors): seq.next -> "seq.next", len(q.heap) -> "len(q.heap)".
func exprKey(e ast.Expr) string {
	if e == nil {
		return "?"
	}
	if keySubst != nil {
		if s, ok := keySubst[ast.Unparen(e)]; ok {
			return s
		}
	}
	switch x := ast.Unparen(e).(type) {
	case *ast.Ident:
		return x.Name
	case *ast.SelectorExpr:
		return exprKey(x.X) + "." + x.Sel.Name
	case *ast.BasicLit:
		return x.Value
	case *ast.CallExpr:
		var as []string
		for _, a := range x.Args {
			as = append(as, exprKey(a))
		}
		return exprKey(x.Fun) + "(" + strings.Join(as, ",") + ")"
	case *ast.StarExpr:
		return "*" + exprKey(x.X)
	case *ast.UnaryExpr:
		return x.Op.String() + exprKey(x.X)
	case *ast.BinaryExpr:
		return "(" + exprKey(x.X) + x.Op.String() + exprKey(x.Y) + ")"
	case *ast.IndexExpr:
		return exprKey(x.X) + "[" + exprKey(x.Index) + "]"
	case *ast.IndexListExpr:
		return exprKey(x.X) + "[...]"
	case *ast.SliceExpr:
		lo, hi := "", ""
		if x.Low != nil {
			lo = exprKey(x.Low)
		}
		if x.High != nil {
			hi = exprKey(x.High)
		}
		return exprKey(x.X) + "[" + lo + ":" + hi + "]"
	case *ast.TypeAssertExpr:
		return exprKey(x.X) + ".(type)"
	case *ast.CompositeLit:
		return "lit{}"
	case *ast.FuncLit:
		return "func{}"
	}
	return "?"
}

// Rel is a normalised binary relation: L op R with op in {<,<=,==,!=} and, for the ordered
// ones, possibly swapped so that only < and <= occur.
type Rel struct {
	L, Op, R string
}

func (r Rel) String() string { return r.L + " " + r.Op + " " + r.R }

// relOf normalises cond (holding on its TRUE edge). ok=false if not a comparison.
func relOf(e ast.Expr) (Rel, bool) { return relOfWith(e, exprKey) }

func relOfWith(e ast.Expr, keyOf func(ast.Expr) string) (Rel, bool) {
	neg := false
	for {
		e = ast.Unparen(e)
		if u, ok := e.(*ast.UnaryExpr); ok && u.Op == token.NOT {
			neg = !neg
			e = u.X
			continue
		}
		break
	}
	b, ok := e.(*ast.BinaryExpr)
	if !ok {
		return Rel{}, false
	}
	op := b.Op
	if neg {
		switch op {
		case token.LSS:
			op = token.GEQ
		case token.LEQ:
			op = token.GTR
		case token.GTR:
			op = token.LEQ
		case token.GEQ:
			op = token.LSS
		case token.EQL:
			op = token.NEQ
		case token.NEQ:
			op = token.EQL
		default:
			return Rel{}, false
		}
	}
	l, r := keyOf(b.X), keyOf(b.Y)
	switch op {
	case token.LSS:
		return Rel{l, "<", r}, true
	case token.LEQ:
		return Rel{l, "<=", r}, true
	case token.GTR:
		return Rel{r, "<", l}, true
	case token.GEQ:
		return Rel{r, "<=", l}, true
	case token.EQL, token.NEQ:
		if l > r {
			l, r = r, l
		}
		return Rel{l, op.String(), r}, true
	}
	return Rel{}, false
}

// negRel returns the relation holding on the FALSE edge.
func negRel(r Rel) Rel {
	switch r.Op {
	case "<":
		return Rel{r.R, "<=", r.L}
	case "<=":
		return Rel{r.R, "<", r.L}
	case "==":
		return Rel{r.L, "!=", r.R}
	case "!=":
		return Rel{r.L, "==", r.R}
	}
	return r
}

// RelEdges returns all edges on which relation `want` is known to hold (conditions are
// decomposed over !, && and ||).
func (f *FuncCFG) RelEdges(want func(Rel) bool) []Edge {
	var out []Edge
	f.forEachEdgeFact(func(e Edge, b *cfg.Block, ft fact) {
		r, ok := relOf(ft.Atom)
		if !ok {
			return
		}
		if !ft.Pol {
			r = negRel(r)
		}
		if want(r) {
			out = append(out, e)
		}
	})
	return out
}

// RelEdgesAt is RelEdges with both sides rendered by KeyAt at the branch (temporaries, helper
// parameters and single-return helpers resolved).
func (f *FuncCFG) RelEdgesAt(want func(Rel) bool) []Edge {
	var out []Edge
	f.forEachEdgeFact(func(e Edge, b *cfg.Block, ft fact) {
		pt := Point{b, len(b.Nodes) - 1}
		r, ok := relOfWith(ft.Atom, func(x ast.Expr) string { return f.KeyAt(x, pt) })
		if !ok {
			return
		}
		if !ft.Pol {
			r = negRel(r)
		}
		if want(r) {
			out = append(out, e)
		}
	})
	return out
}

// stripRoot removes the leading identifier of a key: "seq.next" -> ".next".
func stripRoot(k string) string {
	if i := strings.Index(k, "."); i >= 0 {
		return k[i:]
	}
	return k
}

func isConstZero(info *types.Info, e ast.Expr) bool {
	tv, ok := info.Types[e]
	return ok && tv.Value != nil && tv.Value.String() == "0"
}
