package main

import (
	"fmt"
	"go/ast"
	"go/token"
	"go/types"
	"strings"

	"golang.org/x/tools/go/cfg"
)

func init() {
	register(&property{
		ID:  "C20",
		Run: runC20,
		Meta: propMeta{
			Explanation: "Static clauses of app/daemon on all CFG paths: (1) order maintenance: every append to the shutdown-order list is followed under the lock by a sort with the descending comparator, and the WaitGroup of the worker's order exists before the worker is created; (2) stop protocol in stopWorkers: the walk uses the snapshot taken under the lock; on the edge where the current worker's order is lower than the previous one, Wait on the previous order's group precedes the cancel; every running worker is cancelled; a final Wait lies on every path after the loop; (3) worker goroutine: WaitGroup.Add before go, and Done precedes cleanup precedes running=false; (4) single-shot shutdown through stopOnce in both entry points, ShutdownAndWait synchronous, stopped set before workers are stopped; (5) workers / order list / WaitGroup map only under the daemon lock (helpers caller-holds); (6) registration atomic with shutdown: the stopped flag is set under the lock and the test that licenses registering/starting a worker is evaluated under the same lock; re-registration of a running name is refused.",
			NotDecided:  "the ordering claim over all worker sets and timings; behaviour of worker functions that ignore their context",
			Assumptions: []string{"sync.Once/WaitGroup/RWMutex semantics"},
		},
		Modes: []string{"deadlock", "verif"},
	})
}

func runC20(c *Ctx) {
	p := c.Load("app")
	if p == nil {
		return
	}
	r := c.R
	const pkg = "app/daemon"
	pk := p.Pkg(pkg)
	if pk == nil {
		r.Unresolved("load", pkg, "package not loaded")
		return
	}
	info := pk.TypesInfo
	// the shutdown walk reaches every worker of the snapshot: a worker that already returned is skipped, not the rest of the list
	checkLoopVisitsAll(r, p, pkg, "OrderedDaemon", "stopWorkers", "the shutdown order")
	checkExplicitOrderHonoured(r, p, pkg, "OrderedDaemon", "BackgroundWorker")
	callSuffix := func(suffix string) func(ast.Node) bool {
		return func(n ast.Node) bool {
			cl, ok := n.(*ast.CallExpr)
			return ok && strings.HasSuffix(exprKey(cl.Fun), suffix)
		}
	}
	// (5) locks
	checkGuards(r, p, "lock/guarded-by", []GuardRow{{Pkg: pkg, Type: "OrderedDaemon", Mutex: "lock",
		Fields: []string{"workers", "shutdownOrderWorker", "wgPerSameShutdownOrder"},
		CH:     map[string]LockMode{"runBackgroundWorker": ModeW, "removeWorkerFromShutdownOrder": ModeW},
		Exempt: map[string]string{"OrderedDaemon.stopWorkers": "reads wgPerSameShutdownOrder after the stopped flag was set under the lock and the snapshot was taken: no registration can insert any more (enforced by reg/atomic-with-shutdown); clear() runs afterwards on the same goroutine"}}})
	checkLockBalance(r, p, "lock/balance", []string{pkg}, nil, nil)
	checkLockOrder(r, p, "lock/order", lockOrderOpts{Pkgs: []string{pkg}})
	// (5b) the per-order wait groups outlive their workers: an entry is created at registration and the
	// map is dropped as a whole by clear(). A single entry may only be deleted after waiting on it -
	// a worker of that order that is still running counts on it (its Done would hit a missing or,
	// after a re-registration, a different wait group, and stopWorkers would no longer wait for it).
	{
		nDel, bad := 0, ""
		for _, fd := range p.AllFuncDecls(pkg) {
			if fd.Body == nil || strings.HasSuffix(p.Fset.Position(fd.Pos()).Filename, "_test.go") {
				continue
			}
			f := newFuncCFGPlain(p, info, fd.Body, funcKey(pkg, fd))
			for _, c := range f.Calls(func(c *ast.CallExpr) bool {
				return rawKey(c.Fun) == "delete" && len(c.Args) == 2 && fieldSel(info, c.Args[0], "wgPerSameShutdownOrder")
			}) {
				nDel++
				cpt, found := f.PointOf(c)
				if !found {
					continue
				}
				k := exprKey(c.Args[1])
				if _, reach := f.PathFromEntryAvoiding(cpt, func(n ast.Node) bool {
					w, ok := n.(*ast.CallExpr)
					if !ok {
						return false
					}
					se, ok := ast.Unparen(w.Fun).(*ast.SelectorExpr)
					if !ok || se.Sel.Name != "Wait" {
						return false
					}
					ix, ok := ast.Unparen(se.X).(*ast.IndexExpr)
					return ok && fieldSel(info, ix.X, "wgPerSameShutdownOrder") && exprKey(ix.Index) == k
				}, nil); reach {
					bad = fmt.Sprintf("%s: %s deletes the wait group of one shutdown order without having waited on it: a worker of that order that is still running (or finishes later) counts on it, and stopWorkers no longer waits for that worker", p.posStr(c.Pos()), funcKey(pkg, fd))
				}
			}
		}
		if bad != "" {
			r.Fail("wg/entry-outlives-workers", pkg+".OrderedDaemon.wgPerSameShutdownOrder", "-", bad)
		} else {
			r.Pass("wg/entry-outlives-workers", pkg+".OrderedDaemon.wgPerSameShutdownOrder", "-", fmt.Sprintf("%d single-entry deletion(s), each after waiting on the entry; otherwise entries are created at registration and dropped as a whole", nDel))
		}
	}

	// (1b) every other writer keeps the list sorted
	checkOrderPreservingWrites(r, p, pkg, info)
	// (1) order maintenance
	if f := p.CFGOf(pkg, "OrderedDaemon", "BackgroundWorker"); f == nil {
		r.Unresolved("order/sorted-descending", pkg+".OrderedDaemon.BackgroundWorker", "method not found")
	} else {
		key := pkg + ".OrderedDaemon.BackgroundWorker"
		appends := f.Find(func(n ast.Node) bool {
			as, ok := n.(*ast.AssignStmt)
			return ok && len(as.Lhs) == 1 && fieldSel(info, as.Lhs[0], "shutdownOrderWorker") && strings.HasPrefix(exprKey(as.Rhs[0]), "append(")
		})
		isSort := func(n ast.Node) bool {
			cl, ok := n.(*ast.CallExpr)
			if !ok {
				return false
			}
			sd := recogniseSort(info, cl)
			return sd != nil && fieldSel(info, sd.Target, "shutdownOrderWorker")
		}
		if len(appends) != 1 {
			r.Fail("order/sorted-descending", key, f.P.posStr(f.Body.Pos()), fmt.Sprintf("expected one append to the shutdown-order list, found %d", len(appends)))
		} else if w, found := f.PathToExitAvoiding(appends[0], isSort); found {
			r.Fail("order/sorted-descending", key, f.PosOf(appends[0]), "after appending a worker a path returns without re-sorting the shutdown-order list", w...)
		} else {
			// comparator (of every sort call of the list, whichever library spelling is used): the
			// key is the shutdown order of the named worker, the direction descending
			cmp, okCmp, n := "", true, 0
			for _, spt := range f.Find(isSort) {
				sd := sortIn(info, f.nodeAt(spt))
				if sd == nil {
					continue
				}
				n++
				cmp = fmt.Sprintf("key %s kind %s descending=%v understood=%v", sd.Key, sd.Kind, sd.Desc, sd.OK)
				if !sd.OK || sd.Kind != "ord" || !sd.Desc || !strings.HasSuffix(sd.Key, "[@].shutdownOrder") {
					okCmp = false
				}
			}
			if okCmp && n > 0 {
				r.Pass("order/sorted-descending", key, f.PosOf(appends[0]), "append is followed by a sort of the list by descending shutdown order")
			} else {
				r.Fail("order/sorted-descending", key, f.PosOf(appends[0]), "the shutdown-order list must be sorted by descending shutdown order; comparator is "+cmp)
			}
		}
		// wait group exists before the worker is created
		creates := f.Find(func(n ast.Node) bool {
			as, ok := n.(*ast.AssignStmt)
			if !ok || len(as.Lhs) != 1 {
				return false
			}
			ix, ok := ast.Unparen(as.Lhs[0]).(*ast.IndexExpr)
			return ok && fieldSel(info, ix.X, "workers")
		})
		ensure := func(n ast.Node) bool {
			as, ok := n.(*ast.AssignStmt)
			if !ok || len(as.Lhs) != 1 {
				return false
			}
			ix, ok := ast.Unparen(as.Lhs[0]).(*ast.IndexExpr)
			return ok && fieldSel(info, ix.X, "wgPerSameShutdownOrder")
		}
		// "the order has a WaitGroup already": the comma-ok result of indexing wgPerSameShutdownOrder
		okVars := map[types.Object]bool{}
		for _, d := range p.AllFuncDecls(pkg) {
			if d.Body == nil {
				continue
			}
			ast.Inspect(d.Body, func(n ast.Node) bool {
				if as, ok := n.(*ast.AssignStmt); ok && len(as.Lhs) == 2 && len(as.Rhs) == 1 {
					if ix, ok := ast.Unparen(as.Rhs[0]).(*ast.IndexExpr); ok && fieldSel(info, ix.X, "wgPerSameShutdownOrder") {
						if o := objOfIdent(info, as.Lhs[1]); o != nil {
							okVars[o] = true
						}
					}
				}
				return true
			})
		}
		present, _ := f.CondEdges(func(e ast.Expr) bool { o := objOfIdent(info, e); return o != nil && okVars[o] })
		pe := map[Edge]bool{}
		for _, e := range present {
			pe[e] = true
		}
		if len(creates) != 1 {
			r.Fail("order/waitgroup-exists", key, f.P.posStr(f.Body.Pos()), "expected one store into d.workers")
		} else if w, found := f.PathFromEntryAvoiding(creates[0], ensure, func(e Edge) bool { return pe[e] }); found {
			r.Fail("order/waitgroup-exists", key, f.PosOf(creates[0]), "a worker can be registered for an order that has no WaitGroup yet (nil dereference when it is started, or it is not waited for)", w...)
		} else {
			r.Pass("order/waitgroup-exists", key, f.PosOf(creates[0]), "the WaitGroup of the order is created (or known to exist) before the worker is stored")
		}
		// re-registration refused while running
		stillRunning, _ := f.CondEdges(func(e ast.Expr) bool {
			return strings.HasSuffix(exprKey(e), "xWorker.running.Load()") || exprKey(e) == "exWorker.running.Load()"
		})
		ok := len(stillRunning) > 0
		for _, e := range stillRunning {
			if _, found := f.reach(Point{e.From.Succs[e.Succ], 0}, nil, func(pt Point, atExit bool) bool { return !atExit && f.At(pt, creates[0]) }); found {
				ok = false
			}
		}
		if ok {
			r.Pass("reg/running-name-refused", key, f.P.posStr(f.Body.Pos()), "a name whose previous worker still runs is refused before anything is overwritten")
		} else {
			r.Fail("reg/running-name-refused", key, f.P.posStr(f.Body.Pos()), "registering a name that is still running must be refused")
		}
	}
	// (6) registration atomic with shutdown
	for _, m := range []string{"BackgroundWorker", "Start"} {
		fd := p.FuncDecl(pkg, "OrderedDaemon", m)
		key := pkg + ".OrderedDaemon." + m
		if fd == nil {
			r.Unresolved("reg/atomic-with-shutdown", key, "method not found")
			continue
		}
		recvObj := info.Defs[recvIdentOf(fd)]
		recvPath := fmt.Sprintf("%s@%d", recvObj.Name(), recvObj.Pos())
		f := newFuncCFG(p, info, fd.Body, key)
		// stopped tests evaluated with the lock held
		heldAt := map[ast.Node]LockSet{}
		AnalyzeLocks(fd.Body, LockSet{}, &FlowOpts{Info: info}, func(n ast.Node, stack []ast.Node, held LockSet) {
			if cl, ok := n.(*ast.CallExpr); ok {
				if _, seen := heldAt[cl]; !seen {
					heldAt[cl] = held
				}
			}
		})
		var lockedNotStopped []Edge
		f.forEachEdgeFact(func(e Edge, b *cfg.Block, ft fact) {
			cl, ok := ft.Atom.(*ast.CallExpr)
			if !ok || ft.Pol {
				return
			}
			k := exprKey(cl.Fun)
			if !(strings.HasSuffix(k, ".IsStopped") || strings.HasSuffix(k, ".stopped.Load")) {
				return
			}
			if heldAt[cl][recvPath+".lock"] >= ModeW {
				lockedNotStopped = append(lockedNotStopped, e)
			}
		})
		actions := f.Find(func(n ast.Node) bool {
			if callSuffix(".runBackgroundWorker")(n) {
				return true
			}
			as, ok := n.(*ast.AssignStmt)
			if !ok || len(as.Lhs) != 1 {
				return false
			}
			ix, ok := ast.Unparen(as.Lhs[0]).(*ast.IndexExpr)
			return ok && fieldSel(info, ix.X, "workers")
		})
		if len(actions) == 0 {
			r.Fail("reg/atomic-with-shutdown", key, p.posStr(fd.Pos()), "no registration/start action found (vacuous)")
			continue
		}
		bad := false
		for _, a := range actions {
			if w, only := f.OnlyThroughEdges(a, lockedNotStopped); !only {
				bad = true
				r.Fail("reg/atomic-with-shutdown", key, f.PosOf(a), "a worker is registered/started on a path that has not tested the stopped flag while holding the daemon lock: a shutdown interleaved between the unlocked test and the lock acquisition has already taken its snapshot, so the worker is started and never cancelled nor waited for", w...)
				break
			}
		}
		if !bad {
			r.Pass("reg/atomic-with-shutdown", key, p.posStr(fd.Pos()), fmt.Sprintf("%d action(s) dominated by a stopped test evaluated under the daemon lock", len(actions)))
		}
	}
	if fd := p.FuncDecl(pkg, "OrderedDaemon", "shutdown"); fd == nil {
		r.Unresolved("reg/atomic-with-shutdown", pkg+".OrderedDaemon.shutdown", "method not found")
	} else {
		key := pkg + ".OrderedDaemon.shutdown"
		recvObj := info.Defs[recvIdentOf(fd)]
		recvPath := fmt.Sprintf("%s@%d", recvObj.Name(), recvObj.Pos())
		n, okLocked := 0, true
		AnalyzeLocks(fd.Body, LockSet{}, &FlowOpts{Info: info}, func(nd ast.Node, stack []ast.Node, held LockSet) {
			if cl, ok := nd.(*ast.CallExpr); ok && strings.HasSuffix(exprKey(cl.Fun), ".stopped.Store") && len(cl.Args) == 1 && exprKey(cl.Args[0]) == "true" {
				n++
				if held[recvPath+".lock"] < ModeW {
					okLocked = false
				}
			}
		})
		f := newFuncCFG(p, info, fd.Body, key)
		stops := f.Find(callSuffix(".stopWorkers"))
		setsFlag := func(nd ast.Node) bool {
			cl, ok := nd.(*ast.CallExpr)
			return ok && strings.HasSuffix(exprKey(cl.Fun), ".stopped.Store") && exprKey(cl.Args[0]) == "true"
		}
		switch {
		case n == 0:
			r.Fail("reg/atomic-with-shutdown", key, p.posStr(fd.Pos()), "shutdown never sets the stopped flag")
		case !okLocked:
			r.Fail("reg/atomic-with-shutdown", key, p.posStr(fd.Pos()), "the stopped flag is set outside the daemon lock: a registration that already holds the lock cannot be ordered against the shutdown snapshot")
		case len(stops) != 1:
			r.Fail("shutdown/flag-before-stop", key, p.posStr(fd.Pos()), "expected one stopWorkers call")
		default:
			r.Pass("reg/atomic-with-shutdown", key, p.posStr(fd.Pos()), "stopped is set while holding the daemon lock")
			if w, found := f.PathFromEntryAvoiding(stops[0], setsFlag, nil); found {
				r.Fail("shutdown/flag-before-stop", key, f.PosOf(stops[0]), "workers are stopped before the stopped flag is set", w...)
			} else {
				r.Pass("shutdown/flag-before-stop", key, f.PosOf(stops[0]), "stopped is set before stopWorkers")
			}
		}
	}
	// (2) stop protocol (expressed over types, facts and loop structure, not over local names)
	if f := p.CFGOf(pkg, "OrderedDaemon", "stopWorkers"); f == nil {
		r.Unresolved("stop/wait-before-cancel-lower-order", pkg+".OrderedDaemon.stopWorkers", "method not found")
	} else {
		key := pkg + ".OrderedDaemon.stopWorkers"
		fd := p.FuncDecl(pkg, "OrderedDaemon", "stopWorkers")
		// a Wait on one of the per-order WaitGroups; waitIndex returns the index expression
		waitIndex := func(n ast.Node) (string, bool) {
			cl, ok := n.(*ast.CallExpr)
			if !ok {
				return "", false
			}
			se, ok := ast.Unparen(cl.Fun).(*ast.SelectorExpr)
			if !ok || se.Sel.Name != "Wait" || !strings.HasSuffix(typeName(info.TypeOf(se.X)), "sync.WaitGroup") {
				return "", false
			}
			if ix, ok := ast.Unparen(se.X).(*ast.IndexExpr); ok && fieldSel(info, ix.X, "wgPerSameShutdownOrder") {
				// the order waited for, as the caller of a wait helper spells it
				if cpt, found := f.PointOf(cl); found {
					return f.KeyAt(ix.Index, cpt), true
				}
				return exprKey(ix.Index), true
			}
			return "", false
		}
		isWait := func(n ast.Node) bool { _, ok := waitIndex(n); return ok }
		// cancelling a worker: a call through a field of type context.CancelFunc
		isCancel := func(n ast.Node) bool {
			cl, ok := n.(*ast.CallExpr)
			if !ok {
				return false
			}
			se, ok := ast.Unparen(cl.Fun).(*ast.SelectorExpr)
			if !ok {
				return false
			}
			sel := info.Selections[se]
			return sel != nil && sel.Kind() == types.FieldVal && typeName(sel.Type()) == "context.CancelFunc"
		}
		nodeHas := func(pred func(ast.Node) bool) func(pt Point) bool {
			return func(pt Point) bool {
				hit := false
				if n := f.nodeAt(pt); n != nil {
					inspectNoLit(n, func(m ast.Node) bool {
						if pred(m) {
							hit = true
						}
						return !hit
					})
				}
				return hit
			}
		}
		// the edge on which the next worker is known to have a LOWER order than the tracked one:
		// <worker>.shutdownOrder < V ; V is the tracked order variable
		tracked := ""
		lower := f.RelEdges(func(rel Rel) bool {
			if rel.Op == "<" && strings.HasSuffix(rel.L, ".shutdownOrder") && !strings.Contains(rel.R, ".shutdownOrder") {
				tracked = rel.R
				return true
			}
			return false
		})
		if len(lower) == 0 {
			r.Fail("stop/wait-before-cancel-lower-order", key, p.posStr(fd.Pos()), "no test `<worker>.shutdownOrder < <tracked order>`: orders are not separated")
		} else {
			bad := false
			waitsTracked := func(n ast.Node) bool { ix, ok := waitIndex(n); return ok && ix == tracked }
			advances := func(n ast.Node) bool {
				as, ok := n.(*ast.AssignStmt)
				return ok && len(as.Lhs) == 1 && rawKey(as.Lhs[0]) == tracked && strings.HasSuffix(exprKey(as.Rhs[0]), ".shutdownOrder")
			}
			for _, e := range lower {
				start := Point{e.From.Succs[e.Succ], 0}
				if w, found := f.reach(start, &searchOpts{AvoidNode: waitsTracked}, func(pt Point, atExit bool) bool { return !atExit && nodeHas(isCancel)(pt) }); found {
					bad = true
					r.Fail("stop/wait-before-cancel-lower-order", key, p.posStr(fd.Pos()), "a worker of a lower shutdown order can be cancelled before the previous order's WaitGroup was waited for", w...)
				}
				if w, found := f.reach(start, &searchOpts{AvoidNode: waitsTracked}, func(pt Point, atExit bool) bool { return !atExit && nodeHas(advances)(pt) }); found {
					bad = true
					r.Fail("stop/wait-before-cancel-lower-order", key+" wait-then-advance", p.posStr(fd.Pos()), "the tracked order is advanced before the previous order's WaitGroup was waited for (the wait would then address the new order)", w...)
				}
				if _, found := f.reach(start, &searchOpts{AvoidNode: advances}, func(pt Point, atExit bool) bool { return atExit || nodeHas(isCancel)(pt) }); found {
					bad = true
					r.Fail("stop/wait-before-cancel-lower-order", key+" order advanced", p.posStr(fd.Pos()), "the tracked order ("+tracked+") is not advanced to the new order before the worker is cancelled")
				}
			}
			if !bad {
				r.Pass("stop/wait-before-cancel-lower-order", key, p.posStr(fd.Pos()), "on the lower-order edge: Wait on the tracked order's group, then the tracked order is advanced, then cancel")
			}
		}
		// every worker is cancelled: in the loop that cancels, no iteration avoids the cancel
		cancels := f.Find(isCancel)
		var cancelLoop *loopInfo
		for _, l := range f.Loops() {
			l := l
			for _, c := range cancels {
				if f.InLoopBody(l, c) {
					cancelLoop = &l
				}
			}
		}
		switch {
		case len(cancels) == 0 || cancelLoop == nil:
			r.Fail("stop/every-worker-cancelled", key, p.posStr(fd.Pos()), "no loop that cancels the workers' contexts")
		default:
			if w, found := f.IterationSkips(*cancelLoop, isCancel); found {
				r.Fail("stop/every-worker-cancelled", key, f.P.posStr(cancelLoop.Stmt.Pos()), "an iteration can finish without cancelling the worker's context", w...)
			} else {
				r.Pass("stop/every-worker-cancelled", key, f.P.posStr(cancelLoop.Stmt.Pos()), "every iteration cancels the worker's context")
			}
		}
		// final wait: after the last cancel, every path to the exit passes a Wait
		{
			bad := len(cancels) == 0
			for _, cpt := range cancels {
				if _, found := f.PathToExitAvoiding(cpt, isWait); found {
					bad = true
				}
			}
			if bad {
				r.Fail("stop/final-wait", key, p.posStr(fd.Pos()), "after cancelling workers a path returns without waiting for the last order's WaitGroup: ShutdownAndWait can return while workers still run")
			} else {
				r.Pass("stop/final-wait", key, p.posStr(fd.Pos()), "a Wait follows every cancel on all paths to the exit")
			}
		}
		// snapshot: the list and the workers come from the locked snapshot helper (direct reads of
		// the guarded fields without the lock are reported by lock/guarded-by)
		snap := false
		ast.Inspect(fd.Body, func(n ast.Node) bool {
			if callSuffix(".getWorkersAndShutdownOrder")(n) {
				snap = true
			}
			return true
		})
		if snap {
			r.Pass("stop/uses-snapshot", key, p.posStr(fd.Pos()), "walks the snapshot taken under the lock")
		} else {
			r.Fail("stop/uses-snapshot", key, p.posStr(fd.Pos()), "stopWorkers must walk the snapshot returned by getWorkersAndShutdownOrder")
		}
	}
	// (2c) a name is (re-)registered only while no goroutine of an earlier worker of that name can
	// still clean up: the finished goroutine removes the entry BY NAME and clears the entry's running
	// flag only afterwards (worker/done-cleanup-order), so the registration may install a new entry
	// only on the edge on which the name is absent from the map or on which the existing entry's
	// running flag - that flag itself, not a weaker combination - was read as false. Otherwise the stale
	// cleanup deletes the new, running worker: it is never cancelled and never waited for at shutdown.
	isWorkersIndex := func(e ast.Expr) bool {
		ix, ok := ast.Unparen(e).(*ast.IndexExpr)
		return ok && strings.HasSuffix(rawKey(ix.X), ".workers")
	}
	// identityCheckedCleanup: the clean-up removes an entry only after it found, under the lock, that
	// the name still maps to the very worker that finished (an identity comparison of the map entry
	// with a parameter of the clean-up)
	identityCheckedCleanup := func() bool {
		cfd := p.FuncDecl(pkg, "OrderedDaemon", "cleanupWorker")
		if cfd == nil || cfd.Body == nil {
			return false
		}
		cf := newFuncCFG(p, info, cfd.Body, pkg+".OrderedDaemon.cleanupWorker")
		params := map[types.Object]bool{}
		for _, fl := range cfd.Type.Params.List {
			for _, nm := range fl.Names {
				if _, isPtr := info.TypeOf(nm).Underlying().(*types.Pointer); isPtr {
					params[info.Defs[nm]] = true
				}
			}
		}
		var own []Edge
		cf.forEachEdgeFact(func(e Edge, b *cfg.Block, ft fact) {
			be, ok := ast.Unparen(ft.Atom).(*ast.BinaryExpr)
			if !ok || (be.Op != token.EQL && be.Op != token.NEQ) {
				return
			}
			same := (be.Op == token.EQL) == ft.Pol
			for _, pair := range [][2]ast.Expr{{be.X, be.Y}, {be.Y, be.X}} {
				if isWorkersIndex(pair[0]) && params[objOfIdent(info, pair[1])] && same {
					own = append(own, e)
				}
			}
		})
		dels := cf.Find(func(n ast.Node) bool {
			c, ok := n.(*ast.CallExpr)
			return ok && rawKey(c.Fun) == "delete" && len(c.Args) == 2 && strings.HasSuffix(rawKey(c.Args[0]), ".workers")
		})
		okOwn := len(own) > 0 && len(dels) > 0
		for _, dp := range dels {
			if _, only := cf.OnlyThroughEdges(dp, own); !only {
				okOwn = false
			}
		}
		return okOwn
	}
	if fd := p.FuncDecl(pkg, "OrderedDaemon", "BackgroundWorker"); fd == nil {
		r.Unresolved("reg/replaces-only-cleaned-up-worker", pkg+".OrderedDaemon.BackgroundWorker", "method not found")
	} else {
		key := pkg + ".OrderedDaemon.BackgroundWorker"
		f := newFuncCFG(p, info, fd.Body, key)
		stores := f.Find(func(n ast.Node) bool {
			as, ok := n.(*ast.AssignStmt)
			if !ok {
				return false
			}
			for _, l := range as.Lhs {
				if isWorkersIndex(l) {
					return true
				}
			}
			return false
		})
		var licensed []Edge
		f.forEachEdgeFact(func(e Edge, b *cfg.Block, ft fact) {
			if ft.Pol {
				return
			}
			pt := Point{b, len(b.Nodes) - 1}
			// the comma-ok result of a lookup in the workers map
			if id, isId := ast.Unparen(ft.Atom).(*ast.Ident); isId {
				if o := objOfIdent(info, id); o != nil {
					if defs, fromEntry := f.ReachingDefs(pt, o); len(defs) == 1 && !fromEntry {
						if as, isAs := f.nodeAt(defs[0].At).(*ast.AssignStmt); isAs && len(as.Lhs) == 2 && len(as.Rhs) == 1 && objOfIdent(info, as.Lhs[1]) == o && isWorkersIndex(as.Rhs[0]) {
							licensed = append(licensed, e)
						}
					}
				}
				return
			}
			// <entry of the workers map>.running.Load()
			if cl, isCall := ast.Unparen(ft.Atom).(*ast.CallExpr); isCall && len(cl.Args) == 0 {
				if se, ok := ast.Unparen(cl.Fun).(*ast.SelectorExpr); ok && se.Sel.Name == "Load" {
					if fs, ok := ast.Unparen(se.X).(*ast.SelectorExpr); ok && fs.Sel.Name == "running" {
						if strings.Contains(f.KeyAt(fs.X, pt), ".workers[") {
							licensed = append(licensed, e)
						}
					}
				}
			}
		})
		switch {
		case len(stores) == 0 || len(licensed) == 0:
			r.Fail("reg/replaces-only-cleaned-up-worker", key, p.posStr(fd.Pos()), fmt.Sprintf("expected a store into the workers map and a test of the name's presence / the existing entry's running flag (found %d / %d) (vacuous)", len(stores), len(licensed)))
		default:
			bad := ""
			var wit []string
			for _, st := range stores {
				if w, only := f.OnlyThroughEdges(st, licensed); !only {
					bad, wit = f.PosOf(st)+": a worker entry is installed on a path on which the name was present and the existing entry's running flag was not read as false: the goroutine of the earlier worker can still run its clean-up, which deletes the entry by name - the new worker is then unknown to the shutdown (never cancelled, never waited for)", w
				}
			}
			// the alternative that makes any replacement safe: the clean-up removes an entry only after it
			// found, under the lock, that the name still maps to the very worker that finished (an
			// identity comparison of the map entry with a parameter of the clean-up)
			if bad != "" {
				if identityCheckedCleanup() {
					bad = ""
					r.Pass("reg/replaces-only-cleaned-up-worker", key, p.posStr(fd.Pos()), "the clean-up removes the name only while it still maps to the worker that finished (identity test under the lock), so a replaced entry is never removed by a stale clean-up")
				}
				if bad != "" {
					r.Fail("reg/replaces-only-cleaned-up-worker", key, p.posStr(fd.Pos()), bad, wit...)
				}
			} else {
				r.Pass("reg/replaces-only-cleaned-up-worker", key, p.posStr(fd.Pos()), fmt.Sprintf("%d store(s) into the workers map, each only on an edge where the name is absent or the existing entry's running flag is false", len(stores)))
			}
		}
	}
	// (3) worker goroutine
	fdRun := p.FuncDecl(pkg, "OrderedDaemon", "runBackgroundWorker")
	checkGoWaitGroup(r, p, "wg/add-before-go", pkg, fdRun, 1)
	if fdRun != nil {
		// the body of the spawned goroutine: a literal, or a named function / method of the package
		var litBody *ast.BlockStmt
		var litPos token.Pos
		ast.Inspect(fdRun.Body, func(n ast.Node) bool {
			if gs, ok := n.(*ast.GoStmt); ok {
				if b, pos := callableBody(p, info, gs.Call.Fun); b != nil {
					litBody, litPos = b, pos
				}
			}
			return true
		})
		key := pkg + ".OrderedDaemon.runBackgroundWorker goroutine"
		lit := struct{ pos token.Pos }{litPos}
		if litBody == nil {
			r.Fail("worker/done-cleanup-order", key, p.posStr(fdRun.Pos()), "no goroutine body found")
		} else {
			lf := newFuncCFG(p, info, litBody, key)
			find1 := func(pred func(ast.Node) bool) (Point, bool) {
				pts := lf.Find(pred)
				if len(pts) != 1 {
					return Point{}, false
				}
				return pts[0], true
			}
			// the worker function: a call of a value of type WorkerFunc
			run, ok1 := find1(func(n ast.Node) bool {
				cl, ok := n.(*ast.CallExpr)
				if !ok {
					return false
				}
				t := info.TypeOf(cl.Fun)
				return t != nil && strings.HasSuffix(t.String(), ".WorkerFunc")
			})
			done, ok2 := find1(callSuffix(".Done"))
			clean, ok3 := find1(callSuffix(".cleanupWorker"))
			clr, ok4 := find1(func(n ast.Node) bool {
				cl, ok := n.(*ast.CallExpr)
				return ok && strings.HasSuffix(exprKey(cl.Fun), ".running.Store") && exprKey(cl.Args[0]) == "false"
			})
			if !(ok1 && ok2 && ok3 && ok4) {
				r.Fail("worker/done-cleanup-order", key, p.posStr(lit.pos), "expected exactly one each of: worker function call, WaitGroup.Done, cleanupWorker, running.Store(false)")
			} else if hasDefer := func() bool {
				for _, pt := range []Point{run, done, clean, clr} {
					if _, isDefer := lf.nodeAt(pt).(*ast.DeferStmt); isDefer {
						return true
					}
				}
				return false
			}(); hasDefer {
				// deferred bookkeeping: the effective order is the direct top-level events followed by
				// the deferred ones in reverse registration order; every event must be unconditional
				names := []string{"worker function", "Done", "cleanupWorker", "running=false"}
				evOf := func(n ast.Node) int {
					for i, pt := range []Point{run, done, clean, clr} {
						if lf.nodeAt(pt) == n {
							return i
						}
					}
					return -1
				}
				var direct, deferred []int
				topLevel := 0
				for _, st := range litBody.List {
					if i := evOf(st); i >= 0 {
						topLevel++
						if _, isDefer := st.(*ast.DeferStmt); isDefer {
							deferred = append([]int{i}, deferred...)
						} else {
							direct = append(direct, i)
						}
					}
				}
				eff := append(direct, deferred...)
				bad := ""
				if topLevel != 4 {
					bad = "with deferred bookkeeping every one of worker function, Done, cleanupWorker and running=false must be an unconditional top-level statement of the goroutine (cannot order them otherwise)"
				} else {
					for i := range eff {
						if eff[i] != i {
							var seq []string
							for _, e := range eff {
								seq = append(seq, names[e])
							}
							bad = "effective order (defers run last-in first-out) is " + strings.Join(seq, ", ") + "; required: worker function, Done, cleanupWorker, running=false"
							break
						}
					}
				}
				if bad != "" {
					r.Fail("worker/done-cleanup-order", key, p.posStr(lit.pos), bad)
				} else {
					r.Pass("worker/done-cleanup-order", key, p.posStr(lit.pos), "worker function, then (deferred, LIFO) Done, cleanupWorker, running=false")
				}
			} else {
				order := []Point{run, done, clean, clr}
				names := []string{"worker function", "Done", "cleanupWorker", "running=false"}
				bad := ""
				for i := 0; i+1 < len(order); i++ {
					if i == 2 && identityCheckedCleanup() {
						// an identity-checked clean-up cannot remove a successor's entry: it may run
						// after the running flag was cleared (both still follow Done)
						for _, later := range []Point{clean, clr} {
							if _, found := lf.PathFromEntryAvoiding(later, func(n ast.Node) bool { return n == lf.nodeAt(done) || containsNode(lf.nodeAt(done), n) }, nil); found {
								bad = "cleanupWorker / running=false can be reached before Done"
							}
						}
						continue
					}
					a := order[i]
					if _, found := lf.PathFromEntryAvoiding(order[i+1], func(n ast.Node) bool { return n == lf.nodeAt(a) || containsNode(lf.nodeAt(a), n) }, nil); found {
						bad = names[i+1] + " can be reached before " + names[i]
					}
				}
				if _, found := lf.PathToExitAvoiding(run, callSuffix(".Done")); found {
					bad = "the goroutine can end without Done"
				}
				if bad != "" {
					r.Fail("worker/done-cleanup-order", key, p.posStr(lit.pos), bad)
				} else {
					r.Pass("worker/done-cleanup-order", key, p.posStr(lit.pos), "worker function, then Done, then cleanupWorker, then running=false")
				}
			}
		}
	}
	// (4) single-shot
	for _, row := range []struct {
		m     string
		async bool
	}{{"Shutdown", true}, {"ShutdownAndWait", false}} {
		fd := p.FuncDecl(pkg, "OrderedDaemon", row.m)
		key := pkg + ".OrderedDaemon." + row.m
		if fd == nil {
			r.Unresolved("shutdown/single-shot", key, "method not found")
			continue
		}
		okOnce, isGo := false, false
		var stack []ast.Node
		ast.Inspect(fd.Body, func(n ast.Node) bool {
			if n == nil {
				stack = stack[:len(stack)-1]
				return true
			}
			stack = append(stack, n)
			if cl, ok := n.(*ast.CallExpr); ok && strings.HasSuffix(exprKey(cl.Fun), ".stopOnce.Do") && len(cl.Args) == 1 && strings.HasSuffix(exprKey(cl.Args[0]), ".shutdown") {
				okOnce = true
				if len(stack) >= 2 {
					_, isGo = stack[len(stack)-2].(*ast.GoStmt)
				}
			}
			return true
		})
		switch {
		case !okOnce:
			r.Fail("shutdown/single-shot", key, p.posStr(fd.Pos()), "must run shutdown through stopOnce.Do (concurrent or repeated Shutdown calls would stop workers twice)")
		case !row.async && isGo:
			r.Fail("shutdown/single-shot", key, p.posStr(fd.Pos()), "ShutdownAndWait must run the shutdown synchronously")
		default:
			r.Pass("shutdown/single-shot", key, p.posStr(fd.Pos()), "stopOnce.Do(shutdown)")
		}
	}
}

func containsNode(outer, inner ast.Node) bool {
	if outer == nil || inner == nil {
		return false
	}
	found := false
	ast.Inspect(outer, func(n ast.Node) bool {
		if n == inner {
			found = true
		}
		return !found
	})
	return found
}

// checkOrderPreservingWrites: stopWorkers walks shutdownOrderWorker front to back and relies on
// it being sorted by descending shutdown order; only BackgroundWorker sorts. Every other write
// to the list's elements must therefore keep the relative order: the removal shifts the tail
// left by one (copy(s[i:], s[i+1:]) / append(s[:i], s[i+1:]...)), clears vacated slots with the
// zero value, or is followed by a re-sort on every path. A swap-with-last removal leaves a
// low-order worker in front of higher-order ones.
func checkOrderPreservingWrites(r *Reporter, p *Prog, pkg string, info *types.Info) {
	const field = "shutdownOrderWorker"
	isFieldSlice := func(e ast.Expr) (low string, ok bool) {
		se, isSl := ast.Unparen(e).(*ast.SliceExpr)
		if !isSl || !fieldSel(info, se.X, field) || se.High != nil {
			return "", false
		}
		if se.Low == nil {
			return "0", true
		}
		return exprKey(se.Low), true
	}
	isSort := func(n ast.Node) bool {
		cl, ok := n.(*ast.CallExpr)
		if !ok {
			return false
		}
		sd := recogniseSort(info, cl)
		return sd != nil && fieldSel(info, sd.Target, field)
	}
	nShift := 0
	for _, fd := range p.Methods(pkg, "OrderedDaemon") {
		if fd.Body == nil {
			continue
		}
		fkey := funcKey(pkg, fd)
		f := newFuncCFG(p, info, fd.Body, fkey)
		for _, b := range f.G.Blocks {
			if !b.Live {
				continue
			}
			for i, nd := range b.Nodes {
				pt := Point{b, i}
				resorted := func() bool {
					_, found := f.PathToExitAvoiding(pt, isSort)
					return !found
				}
				switch x := nd.(type) {
				case *ast.AssignStmt:
					for li, l := range x.Lhs {
						ix, ok := ast.Unparen(l).(*ast.IndexExpr)
						if !ok || !fieldSel(info, ix.X, field) || li >= len(x.Rhs) {
							continue
						}
						key := fmt.Sprintf("%s = %s in %s", exprKey(l), exprKey(x.Rhs[li]), fkey)
						if tv, ok := info.Types[x.Rhs[li]]; ok && tv.Value != nil && tv.Value.String() == `""` {
							r.Pass("order/writes-keep-order", key, p.posStr(x.Pos()), "clears a vacated slot with the zero value")
						} else if resorted() {
							r.Pass("order/writes-keep-order", key, p.posStr(x.Pos()), "followed by a re-sort on every path")
						} else {
							r.Fail("order/writes-keep-order", key, p.posStr(x.Pos()), "an element of the shutdown-order list is overwritten with another value and the list is not re-sorted afterwards: the descending order stopWorkers relies on is broken (a lower-order worker can be cancelled before a higher-order one has returned)")
						}
					}
					// s = append(s[:i], s[i+1:]...)
					if len(x.Lhs) == 1 && len(x.Rhs) == 1 && fieldSel(info, x.Lhs[0], field) {
						if cl, ok := ast.Unparen(x.Rhs[0]).(*ast.CallExpr); ok && exprKey(cl.Fun) == "append" && len(cl.Args) == 2 && cl.Ellipsis.IsValid() {
							if hs, ok := ast.Unparen(cl.Args[0]).(*ast.SliceExpr); ok && fieldSel(info, hs.X, field) && hs.Low == nil && hs.High != nil {
								if low, ok := isFieldSlice(cl.Args[1]); ok && (low == "("+exprKey(hs.High)+"+1)" || low == exprKey(hs.High)+"+1") {
									nShift++
									r.Pass("order/writes-keep-order", "append-shift in "+fkey, p.posStr(x.Pos()), "removes one element by shifting the tail left")
								}
							}
						}
					}
				case *ast.ExprStmt:
					cl, ok := x.X.(*ast.CallExpr)
					if !ok || exprKey(cl.Fun) != "copy" || len(cl.Args) != 2 {
						continue
					}
					dl, okD := isFieldSlice(cl.Args[0])
					sl, okS := isFieldSlice(cl.Args[1])
					if !okD {
						continue
					}
					key := fmt.Sprintf("copy(%s, %s) in %s", exprKey(cl.Args[0]), exprKey(cl.Args[1]), fkey)
					if okS && (sl == "("+dl+"+1)" || sl == dl+"+1") {
						nShift++
						r.Pass("order/writes-keep-order", key, p.posStr(x.Pos()), "shifts the tail left by one: relative order preserved")
					} else if resorted() {
						r.Pass("order/writes-keep-order", key, p.posStr(x.Pos()), "followed by a re-sort on every path")
					} else {
						r.Fail("order/writes-keep-order", key, p.posStr(x.Pos()), "elements of the shutdown-order list are overwritten by a copy that is not the shift-left-by-one removal idiom, and the list is not re-sorted afterwards")
					}
				}
			}
		}
	}
	if fd := p.FuncDecl(pkg, "OrderedDaemon", "removeWorkerFromShutdownOrder"); fd == nil {
		r.Unresolved("order/writes-keep-order", pkg+".OrderedDaemon.removeWorkerFromShutdownOrder", "the removal of an exited worker from the shutdown-order list was not found")
	} else if nShift == 0 {
		r.Advise("order/writes-keep-order: removeWorkerFromShutdownOrder does not use a recognised shift-left idiom; only its element stores were judged")
	}
}
