package main

import (
	"fmt"
	"go/ast"
	"go/token"
	"go/types"
	"golang.org/x/tools/go/cfg"
	"regexp"
	"strings"
)

func init() {
	register(&property{
		ID:    "C14",
		Run:   runC14,
		Modes: []string{"deadlock"},
		Meta: propMeta{
			Explanation: "Static wiring and ordering clauses of the derived reactive values on all CFG paths: (1) NewDerivedVariable1..4: every input is subscribed with the initial trigger, and in subscription i compute receives the callback's new value at position i and inputJ.Get() at every other position (sibling agreement across arities); (2) derived sets: source mutations go through the SetArithmetic collectors with the tabled direction (InheritFrom: added->Added collector, deleted->Subtracted; SubtractReactive: own source adds, the others subtract), and InheritFrom's unsubscribe both unsubscribes from the source and removes the source's elements; (3) WaitGroup: the atomic counter is raised before the first element is inserted and Done triggers only on `Delete(...) && counter.Add(-1) == 0` (decision on the read-modify-write result); (4) EvictionState: fields under its mutex, events triggered only after the lock is released, the pre-triggered event is returned exactly for slots at or below the last evicted one, lastEvictedSlot advanced on every evicting path; (5) SortedSet: slice/index/weight state under its mutex (weight callback's conditional lock tabled), swap keeps slice position and index coupled, no unsubscribe / foreign callback while holding the sorted-set mutex; (6) Counter.Monitor updates the remembered condition on exactly the paths that change the count. Also: InheritFrom tracks inherited elements per source (the tracking set is created inside the loop over the sources). A weight subscription cancelled outside the sorted-set mutex requires a membership check in the weight callback. Unsubscribing a source stops the subscription before the source's elements are removed; the per-source tracking set may be a local or a field of a per-source record; a weight callback registered with an initial trigger does not branch on its previous-value parameter.",
			NotDecided:  "convergence after quiescence, ordering by weight over histories, deadlock freedom over interleavings beyond the listed lock facts",
			Assumptions: []string{"reactive Variable/Set behave per C13"},
		},
	})
}

func runC14(c *Ctx) {
	p := c.Load("ds")
	if p == nil {
		return
	}
	r := c.R
	const pkg = "ds/reactive"
	pk := p.Pkg(pkg)
	if pk == nil {
		r.Unresolved("load", pkg, "package not loaded")
		return
	}
	info := pk.TypesInfo
	// derived sets are maintained by SetArithmetic: its Add/Subtract route the two element sets of a
	// mutation to the right collectors, with the caller's threshold (the rule group of C11)
	checkSetArithmetic(r, p)

	// (0) derived values unsubscribe from their sources and then take back what those sources
	// contributed: that is only right if unsubscribe orders after a delivery in flight - the callback
	// contract of C13 (the unsubscribed flag lives under the execution mutex)
	// - and, more generally, if the reactive values they are derived from keep the whole subscriber
	// protocol of C13 (registration hand-off, writer sections, payload = applied diff): every obligation
	// of C13 is an obligation here
	runC13(c)

	// (1) derived variable wiring
	nFam := 0
	for n := 1; n <= 8; n++ {
		fd := p.FuncDecl(pkg, "", fmt.Sprintf("NewDerivedVariable%d", n))
		if n == 1 && fd == nil {
			fd = p.FuncDecl(pkg, "", "NewDerivedVariable")
		}
		if fd == nil {
			continue
		}
		nFam++
		checkDerivedVariableWiring(r, p, pkg, fd)
	}
	if nFam < 3 {
		r.Fail("derived/wiring", pkg+".NewDerivedVariableN", "-", fmt.Sprintf("expected the NewDerivedVariable family (at least 3 arities), found %d", nFam))
	}
	// (2) derived sets
	if fd := p.FuncDecl(pkg, "derivedSet", "applyInheritedMutations"); fd == nil {
		r.Unresolved("derivedset/collector-direction", pkg+".derivedSet.applyInheritedMutations", "method not found")
	} else {
		// what the added / deleted elements of the incoming mutations are ranged into, however the
		// operands are named or threaded through temporaries
		info := p.Pkg(pkg).TypesInfo
		f := newFuncCFG(p, info, fd.Body, pkg+".derivedSet.applyInheritedMutations")
		got := map[string]string{}
		for _, c := range f.Calls(func(c *ast.CallExpr) bool {
			se, ok := ast.Unparen(c.Fun).(*ast.SelectorExpr)
			return ok && se.Sel.Name == "Range" && len(c.Args) == 1
		}) {
			cpt, found := f.PointOf(c)
			if !found {
				continue
			}
			src := ""
			switch k := f.KeyAt(ast.Unparen(c.Fun).(*ast.SelectorExpr).X, cpt); {
			case strings.HasSuffix(k, ".AddedElements()"):
				src = "added"
			case strings.HasSuffix(k, ".DeletedElements()"):
				src = "deleted"
			default:
				continue
			}
			sink := "?"
			if re, _ := f.ResolveToCall(c.Args[0], cpt); re != nil {
				if rc, isCall := ast.Unparen(re).(*ast.CallExpr); isCall {
					if se, isSel := ast.Unparen(rc.Fun).(*ast.SelectorExpr); isSel {
						sink = se.Sel.Name
					}
				}
			}
			if prev, dup := got[src]; dup && prev != sink {
				sink = prev + "+" + sink
			}
			got[src] = sink
		}
		if got["added"] == "AddedElementsCollector" && got["deleted"] == "SubtractedElementsCollector" {
			r.Pass("derivedset/collector-direction", pkg+".derivedSet.applyInheritedMutations", p.posStr(fd.Pos()), "added -> AddedElementsCollector, deleted -> SubtractedElementsCollector")
		} else {
			r.Fail("derivedset/collector-direction", pkg+".derivedSet.applyInheritedMutations", p.posStr(fd.Pos()), fmt.Sprintf("inherited additions must count up and deletions count down: added -> %s, deleted -> %s", got["added"], got["deleted"]))
		}
	}
	if fd := p.FuncDecl(pkg, "readableSet", "SubtractReactive"); fd == nil {
		r.Unresolved("derivedset/collector-direction", pkg+".readableSet.SubtractReactive", "method not found")
	} else {
		// the receiver's subscription uses Add, subscriptions inside the loop over `others` use Subtract
		own, other := "", ""
		ast.Inspect(fd.Body, func(n ast.Node) bool {
			cl, ok := n.(*ast.CallExpr)
			if !ok {
				return true
			}
			se, ok := ast.Unparen(cl.Fun).(*ast.SelectorExpr)
			if !ok || se.Sel.Name != "OnUpdate" || len(cl.Args) < 1 {
				return true
			}
			op := ""
			ast.Inspect(cl.Args[0], func(m ast.Node) bool {
				if c2, ok := m.(*ast.CallExpr); ok {
					k := exprKey(c2.Fun)
					if k == "setArithmetic.Add" || k == "setArithmetic.Subtract" {
						op = strings.TrimPrefix(k, "setArithmetic.")
					}
				}
				return true
			})
			if isRecvIdent(info, fd, se.X) {
				own = op
			} else {
				other = op
			}
			return true
		})
		if own == "Add" && other == "Subtract" {
			r.Pass("derivedset/collector-direction", pkg+".readableSet.SubtractReactive", p.posStr(fd.Pos()), "own mutations are added, the others' mutations are subtracted")
		} else {
			r.Fail("derivedset/collector-direction", pkg+".readableSet.SubtractReactive", p.posStr(fd.Pos()), fmt.Sprintf("own source must Add and the other sets must Subtract (own=%s, others=%s)", own, other))
		}
	}
	if fd := p.FuncDecl(pkg, "derivedSet", "InheritFrom"); fd == nil {
		r.Unresolved("derivedset/unsubscribe-removes", pkg+".derivedSet.InheritFrom", "method not found")
	} else {
		// InheritFrom together with the unexported helpers and methods it delegates to (bounded), called
		// or handed on as method values:
		//  (1) the source subscription forwards X.Apply(mutations) of a per-source set X to inheritMutations
		//  (2) a remover forwards WithDeletedElements(X) of the same X to inheritMutations
		//  (3) the derived set is never changed with X directly (that would bypass the occurrence counts)
		// X is a location: a local variable, or a field of a per-source record.
		type dsFrame struct {
			body  *ast.BlockStmt
			sites []struct {
				parent *dsFrame
				pos    token.Pos
			}
		}
		root := &dsFrame{body: fd.Body}
		frames := []*dsFrame{root}
		byFd := map[*ast.FuncDecl]*dsFrame{fd: root}
		var collect func(fr *dsFrame, depth int)
		enter := func(fr *dsFrame, hd *ast.FuncDecl, pos token.Pos, depth int) {
			if hd == nil || hd.Body == nil || hd.Name.IsExported() || hd.Name.Name == "inheritMutations" || p.decls().infoOf[hd] != info {
				return
			}
			sub := byFd[hd]
			fresh := sub == nil
			if fresh {
				sub = &dsFrame{body: hd.Body}
				byFd[hd] = sub
				frames = append(frames, sub)
			}
			if sub == root {
				return
			}
			sub.sites = append(sub.sites, struct {
				parent *dsFrame
				pos    token.Pos
			}{fr, pos})
			if fresh && depth < 3 {
				collect(sub, depth+1)
			}
		}
		collect = func(fr *dsFrame, depth int) {
			ast.Inspect(fr.body, func(n ast.Node) bool {
				if cl, ok := n.(*ast.CallExpr); ok {
					if fn := staticCallee(info, cl); fn != nil {
						enter(fr, p.decls().byFunc[fn.Origin()], cl.Pos(), depth)
					}
				}
				return true
			})
			var walkCbs func(n ast.Node)
			walkCbs = func(n ast.Node) {
				for _, cb := range callbacksIn(p, info, n) {
					if cb.Decl != nil {
						if _, isCall := cb.Node.(*ast.CallExpr); !isCall {
							enter(fr, cb.Decl, cb.Node.Pos(), depth)
						}
					} else if lit, isLit := cb.Node.(*ast.FuncLit); isLit {
						walkCbs(lit.Body)
					}
				}
			}
			walkCbs(fr.body)
		}
		collect(root, 0)
		var bodies []*ast.BlockStmt
		for _, fr := range frames {
			bodies = append(bodies, fr.body)
		}
		loc := func(e ast.Expr) types.Object {
			switch x := ast.Unparen(e).(type) {
			case *ast.Ident:
				return objOfIdent(info, x)
			case *ast.SelectorExpr:
				if sel := info.Selections[x]; sel != nil && sel.Kind() == types.FieldVal {
					if v, isVar := sel.Obj().(*types.Var); isVar {
						return v.Origin()
					}
				}
			}
			return nil
		}
		isNewSet := func(e ast.Expr) bool { return strings.HasPrefix(rawKey(e), "ds.NewSet[") }
		perSource := map[types.Object]bool{}
		type created struct {
			fr  *dsFrame
			pos token.Pos
		}
		createdAt := map[types.Object][]created{}
		applied, removed := map[types.Object]bool{}, map[types.Object]bool{}
		var direct []string
		for _, fr := range frames {
			ast.Inspect(fr.body, func(n ast.Node) bool {
				switch x := n.(type) {
				case *ast.AssignStmt:
					if len(x.Lhs) == 1 && len(x.Rhs) == 1 && isNewSet(x.Rhs[0]) {
						if o := loc(x.Lhs[0]); o != nil {
							perSource[o] = true
							createdAt[o] = append(createdAt[o], created{fr, x.Pos()})
						}
					}
				case *ast.KeyValueExpr:
					if id, ok := x.Key.(*ast.Ident); ok && isNewSet(x.Value) {
						if o, isVar := info.Uses[id].(*types.Var); isVar && o.IsField() {
							o = o.Origin()
							perSource[o] = true
							createdAt[o] = append(createdAt[o], created{fr, x.Pos()})
						}
					}
				}
				return true
			})
		}
		derivedRecv := func(cl *ast.CallExpr) bool {
			fn := staticCallee(info, cl)
			if fn == nil {
				return false
			}
			sig, _ := fn.Type().(*types.Signature)
			if sig == nil || sig.Recv() == nil {
				return false
			}
			switch typeName(sig.Recv().Type()) {
			case "derivedSet", "set", "readableSet":
				return true
			}
			return false
		}
		for _, b := range bodies {
			ast.Inspect(b, func(n ast.Node) bool {
				cl, ok := n.(*ast.CallExpr)
				if !ok {
					return true
				}
				k := rawKey(cl.Fun)
				if strings.HasSuffix(k, ".inheritMutations") && len(cl.Args) == 1 {
					ast.Inspect(cl.Args[0], func(m ast.Node) bool {
						c2, ok := m.(*ast.CallExpr)
						if !ok {
							return true
						}
						k2 := rawKey(c2.Fun)
						if se, ok := ast.Unparen(c2.Fun).(*ast.SelectorExpr); ok && se.Sel.Name == "Apply" && perSource[loc(se.X)] {
							applied[loc(se.X)] = true
						}
						if strings.HasSuffix(k2, ".WithDeletedElements") && len(c2.Args) == 1 && perSource[loc(c2.Args[0])] {
							removed[loc(c2.Args[0])] = true
						}
						return true
					})
					return true
				}
				if _, ok := ast.Unparen(cl.Fun).(*ast.SelectorExpr); ok && derivedRecv(cl) {
					for _, a := range cl.Args {
						if perSource[loc(a)] {
							direct = append(direct, p.posStr(cl.Pos())+" "+exprKey(cl))
						}
					}
				}
				return true
			})
		}
		ok := len(perSource) > 0
		for o := range perSource {
			if !applied[o] || !removed[o] {
				ok = false
			}
		}
		// (4) both the source's unsubscribe function and the remover are handed out: each is a value
		// (variable, field, literal or method value) that appears in an append(...) or a return of these
		// functions, or is called by a function value handed out that way
		isOnUpdate := func(e ast.Expr) bool {
			c, ok := ast.Unparen(e).(*ast.CallExpr)
			return ok && strings.HasSuffix(rawKey(c.Fun), ".OnUpdate")
		}
		unsubLocs, litLocs := map[types.Object]bool{}, map[types.Object]*ast.FuncLit{}
		for _, b := range bodies {
			ast.Inspect(b, func(n ast.Node) bool {
				if as, ok := n.(*ast.AssignStmt); ok && len(as.Lhs) == len(as.Rhs) {
					for i, rhs := range as.Rhs {
						o := loc(as.Lhs[i])
						if o == nil {
							continue
						}
						if isOnUpdate(rhs) {
							unsubLocs[o] = true
						}
						if lit, isLit := ast.Unparen(rhs).(*ast.FuncLit); isLit {
							litLocs[o] = lit
						}
					}
				}
				return true
			})
		}
		unsubOut, removerOut := false, false
		// (6) order: the subscription is stopped before the source's elements are removed (an update
		// delivered in between would be inherited and never removed again). Events are recorded at the
		// place they are handed out (container, argument index) and, inside one function value, at
		// the call that performs them.
		type dsEvent struct {
			unsub     bool
			body      *ast.BlockStmt // frame body of the container
			container ast.Node
			idx       int
			inBody    *ast.BlockStmt // the handed-out function value's body (nil: the value itself)
			call      ast.Node
		}
		var events []dsEvent
		type inner struct {
			unsub bool
			call  ast.Node
		}
		var judgeBody func(b *ast.BlockStmt, depth int) []inner
		judgeBody = func(b *ast.BlockStmt, depth int) []inner {
			var out []inner
			ast.Inspect(b, func(n ast.Node) bool {
				if c, ok := n.(*ast.CallExpr); ok {
					if unsubLocs[loc(c.Fun)] {
						out = append(out, inner{true, c})
					}
					if strings.HasSuffix(rawKey(c.Fun), ".WithDeletedElements") {
						out = append(out, inner{false, c})
					}
					if lit := litLocs[loc(c.Fun)]; lit != nil && depth < 2 {
						for _, in := range judgeBody(lit.Body, depth+1) {
							out = append(out, inner{in.unsub, c})
						}
					}
				}
				return true
			})
			return out
		}
		for _, b := range bodies {
			ast.Inspect(b, func(n ast.Node) bool {
				var exprs []ast.Expr
				switch x := n.(type) {
				case *ast.CallExpr:
					if rawKey(x.Fun) == "append" || strings.HasSuffix(rawKey(x.Fun), ".Batch") {
						exprs = x.Args
					}
				case *ast.ReturnStmt:
					exprs = x.Results
				}
				for idx, e := range exprs {
					if isOnUpdate(e) || unsubLocs[loc(e)] {
						events = append(events, dsEvent{unsub: true, body: b, container: n, idx: idx})
					}
					var cbBodies []*ast.BlockStmt
					if lit := litLocs[loc(e)]; lit != nil {
						cbBodies = append(cbBodies, lit.Body)
					}
					skip := false
					if _, isCall := ast.Unparen(e).(*ast.CallExpr); isCall && !isOnUpdate(e) {
						if t := info.TypeOf(e); t != nil {
							if _, isSig := t.Underlying().(*types.Signature); !isSig {
								skip = true
							}
						}
					}
					if !skip {
						for _, cb := range callbacksIn(p, info, e) {
							if c, isCall := cb.Node.(*ast.CallExpr); isCall && isOnUpdate(c) {
								continue
							}
							cbBodies = append(cbBodies, cb.Body)
						}
					}
					for _, cbb := range cbBodies {
						for _, in := range judgeBody(cbb, 0) {
							events = append(events, dsEvent{unsub: in.unsub, body: b, container: n, idx: idx, inBody: cbb, call: in.call})
						}
					}
				}
				return true
			})
		}
		orderBad := ""
		for _, ev := range events {
			if ev.unsub {
				unsubOut = true
			} else {
				removerOut = true
			}
		}
		for _, rm := range events {
			if rm.unsub {
				continue
			}
			for _, us := range events {
				if !us.unsub || us.body != rm.body {
					continue
				}
				switch {
				case us.container == rm.container && us.idx == rm.idx && us.inBody != nil && us.inBody == rm.inBody:
					// inside one function value: the removal is reached only through the unsubscribe call
					cf := newFuncCFGPlain(p, info, us.inBody, pkg+".derivedSet.InheritFrom$detach")
					rpt, okr := cf.PointOf(rm.call)
					if !okr {
						continue
					}
					if _, found := cf.PathFromEntryAvoiding(rpt, func(n ast.Node) bool {
						hit := false
						ast.Inspect(n, func(m ast.Node) bool {
							hit = hit || m == us.call
							return !hit
						})
						return hit
					}, nil); found {
						orderBad = fmt.Sprintf("%s: the elements inherited from the source are removed on a path that has not stopped the subscription yet (%s)", p.posStr(rm.call.Pos()), p.posStr(us.call.Pos()))
					}
				case us.container == rm.container && us.idx != rm.idx:
					if us.idx > rm.idx {
						orderBad = fmt.Sprintf("%s: the remover is handed out (and so run) before the function that stops the subscription", p.posStr(rm.container.Pos()))
					}
				case us.container != rm.container:
					if us.container.Pos() > rm.container.Pos() {
						orderBad = fmt.Sprintf("%s: the remover is handed out (and so run) before the function that stops the subscription", p.posStr(rm.container.Pos()))
					}
				}
			}
		}
		if ok && !(removerOut && unsubOut) {
			ok = false
		}
		// (5) the tracking set is per source: when the sources are subscribed to in a loop, the set that
		// tracks one source's elements is created inside that loop as well (in the loop body, or in a
		// helper reached only from it). One set shared by all sources drops the second occurrence of an
		// element, so the occurrence count is one although two sources hold it.
		var loops []*ast.RangeStmt
		ast.Inspect(fd.Body, func(n ast.Node) bool {
			if rs, ok := n.(*ast.RangeStmt); ok {
				loops = append(loops, rs)
			}
			return true
		})
		var inLoop func(fr *dsFrame, pos token.Pos, depth int) bool
		inLoop = func(fr *dsFrame, pos token.Pos, depth int) bool {
			if fr == root {
				for _, rs := range loops {
					if rs.Body.Pos() <= pos && pos <= rs.Body.End() {
						return true
					}
				}
				return false
			}
			if len(fr.sites) == 0 || depth > 6 {
				return false
			}
			for _, st := range fr.sites {
				if !inLoop(st.parent, st.pos, depth+1) {
					return false
				}
			}
			return true
		}
		subscribedInLoop := false
		for _, fr := range frames {
			ast.Inspect(fr.body, func(n ast.Node) bool {
				if c, ok := n.(*ast.CallExpr); ok && isOnUpdate(c) && inLoop(fr, c.Pos(), 0) {
					subscribedInLoop = true
				}
				return true
			})
		}
		shared := ""
		if subscribedInLoop {
			for o, cs := range createdAt {
				if !applied[o] {
					continue
				}
				for _, c := range cs {
					if !inLoop(c.fr, c.pos, 0) {
						shared = fmt.Sprintf("%s is created at %s, outside the loop over the sources that subscribes to every source and applies its updates to it", o.Name(), p.posStr(c.pos))
					}
				}
			}
		}
		switch {
		case ok && orderBad != "":
			r.Fail("derivedset/unsubscribe-removes", pkg+".derivedSet.InheritFrom", p.posStr(fd.Pos()), "unsubscribing a source must stop the subscription before it removes the source's elements: an update delivered in between is inherited and never removed again; "+orderBad)
		case shared != "":
			r.Fail("derivedset/unsubscribe-removes", pkg+".derivedSet.InheritFrom", p.posStr(fd.Pos()), "one tracking set is shared by all sources ("+shared+"): an element held by two sources is counted once, and disappears from the derived set when one of them drops it")
		case len(direct) > 0:
			r.Fail("derivedset/unsubscribe-removes", pkg+".derivedSet.InheritFrom", p.posStr(fd.Pos()), "the derived set is changed directly with a source's elements ("+direct[0]+"): this bypasses the per-element occurrence counts, so elements still provided by another source disappear and later updates are swallowed")
		case !ok:
			r.Fail("derivedset/unsubscribe-removes", pkg+".derivedSet.InheritFrom", p.posStr(fd.Pos()), "unsubscribing a source must both stop the subscription and remove the elements inherited from it through inheritMutations (per-source set tracked: applied and removed)")
		default:
			r.Pass("derivedset/unsubscribe-removes", pkg+".derivedSet.InheritFrom", p.posStr(fd.Pos()), "per-source element tracking; unsubscribe = source unsubscribe + removal of the source's elements through the counted path")
		}
	}
	// (3) wait group
	if f := p.CFGOf(pkg, "waitGroup", "Add"); f == nil {
		r.Unresolved("waitgroup/pre-increment", pkg+".waitGroup.Add", "method not found")
	} else {
		adds := f.Find(func(n ast.Node) bool {
			cl, ok := n.(*ast.CallExpr)
			return ok && strings.HasSuffix(exprKey(cl.Fun), ".pendingElements.Add")
		})
		isInc := func(n ast.Node) bool {
			cl, ok := n.(*ast.CallExpr)
			return ok && strings.HasSuffix(exprKey(cl.Fun), ".pendingElementsCounter.Add") && len(cl.Args) == 1 && strings.Contains(exprKey(cl.Args[0]), "len(elements)")
		}
		if len(adds) != 1 {
			r.Fail("waitgroup/pre-increment", pkg+".waitGroup.Add", f.P.posStr(f.Body.Pos()), "expected one insertion into pendingElements")
		} else if w, found := f.PathFromEntryAvoiding(adds[0], isInc, nil); found {
			r.Fail("waitgroup/pre-increment", pkg+".waitGroup.Add", f.PosOf(adds[0]), "an element becomes visible as pending before the counter was raised: a concurrent Done can bring the counter to zero and trigger early", w...)
		} else {
			r.Pass("waitgroup/pre-increment", pkg+".waitGroup.Add", f.PosOf(adds[0]), "the counter is raised by len(elements) before the first element is inserted")
		}
	}
	if fd := p.FuncDecl(pkg, "waitGroup", "Done"); fd == nil {
		r.Unresolved("waitgroup/trigger-on-rmw", pkg+".waitGroup.Done", "method not found")
	} else {
		cond := ""
		ast.Inspect(fd.Body, func(n ast.Node) bool {
			if is, ok := n.(*ast.IfStmt); ok && cond == "" {
				cond = exprKey(is.Cond)
			}
			return true
		})
		f := newFuncCFG(p, info, fd.Body, "")
		trig := f.Find(func(n ast.Node) bool {
			cl, ok := n.(*ast.CallExpr)
			return ok && strings.HasSuffix(exprKey(cl.Fun), ".Trigger")
		})
		if cond == "(w.pendingElements.Delete(element)&&(w.pendingElementsCounter.Add(-1)==0))" && len(trig) == 1 {
			r.Pass("waitgroup/trigger-on-rmw", pkg+".waitGroup.Done", p.posStr(fd.Pos()), "triggers only when this call removed a pending element and its own decrement produced zero")
		} else {
			r.Fail("waitgroup/trigger-on-rmw", pkg+".waitGroup.Done", p.posStr(fd.Pos()), "the trigger decision must use the result of the decrement itself, guarded by a successful removal; found "+cond)
		}
	}
	// (4) eviction state
	checkGuards(r, p, "lock/guarded-by", []GuardRow{
		{Pkg: pkg, Type: "evictionState", Mutex: "mutex", Fields: []string{"lastEvictedSlot", "evictionEvents"}},
		{Pkg: pkg, Type: "sortedSet", Mutex: "mutex", Fields: []string{"sortedElements", "elements", "heaviestElement", "lightestElement"},
			// the two end variables are published (Set / Compute) inside the critical section in which the
			// slice changed: publications then happen in the order of the changes. Reading the field (to hand
			// the variable out) needs no lock.
			Mutators: map[string][]string{"heaviestElement": {"Set", "Compute"}, "lightestElement": {"Set", "Compute"}},
			ReadsOK:  map[string]string{"heaviestElement": "the variable itself is immutable and self-synchronising; only publishing through it is ordered by the mutex", "lightestElement": "see heaviestElement"},
			CH:       map[string]LockMode{"updatePosition": ModeW, "swap": ModeW},
			CondLock: map[string]string{".unsubscribeFromWeightUpdates!=nil": "the weight callback takes the mutex itself unless it is the initial invocation, which runs inside addSorted's own critical section"},
			Exempt: map[string]string{
				"newSortedSetElement":      "called from GetOrCreate's factory inside addSorted's critical section",
				"sortedSet.updatePosition": "caller-holds (its deferred closure runs before the caller unlocks)",
			}},
	})
	// ... and an end variable that is handed to a helper (where the lock rule no longer sees which
	// variable a call goes to) may only be published through an update that makes a stale publication
	// inert: Compute with a callback that compares two generation numbers and hands the current value
	// back on that branch.
	{
		const rule = "sorted/end-published-through-alias"
		nAlias, badAlias := 0, ""
		isEndField := func(e ast.Expr) bool {
			return fieldSel(info, e, "heaviestElement") || fieldSel(info, e, "lightestElement")
		}
		guardedCompute := func(c *ast.CallExpr) bool {
			se, ok := ast.Unparen(c.Fun).(*ast.SelectorExpr)
			if !ok || se.Sel.Name != "Compute" || len(c.Args) != 1 {
				return false
			}
			lit, ok := ast.Unparen(c.Args[0]).(*ast.FuncLit)
			if !ok || lit.Type.Params == nil || len(lit.Type.Params.List) == 0 || len(lit.Type.Params.List[0].Names) == 0 {
				return false
			}
			cur := info.Defs[lit.Type.Params.List[0].Names[0]]
			found := false
			ast.Inspect(lit.Body, func(n ast.Node) bool {
				ifs, ok := n.(*ast.IfStmt)
				if !ok || found {
					return !found
				}
				be, ok := ast.Unparen(ifs.Cond).(*ast.BinaryExpr)
				if !ok || (be.Op != token.LSS && be.Op != token.LEQ && be.Op != token.GTR && be.Op != token.GEQ) {
					return true
				}
				isInt := func(e ast.Expr) bool {
					t := info.TypeOf(e)
					if t == nil {
						return false
					}
					b, ok := t.Underlying().(*types.Basic)
					return ok && b.Info()&types.IsInteger != 0
				}
				if !isInt(be.X) || !isInt(be.Y) {
					return true
				}
				for _, st := range ifs.Body.List {
					if rs, ok := st.(*ast.ReturnStmt); ok && len(rs.Results) == 1 && objOfIdent(info, rs.Results[0]) == cur && cur != nil {
						found = true
					}
				}
				return true
			})
			return found
		}
		for _, fd := range p.Methods(pkg, "sortedSet") {
			if fd.Body == nil {
				continue
			}
			ast.Inspect(fd.Body, func(n ast.Node) bool {
				c, ok := n.(*ast.CallExpr)
				if !ok {
					return true
				}
				for ai, a := range c.Args {
					if !isEndField(a) {
						continue
					}
					nAlias++
					fn := staticCallee(info, c)
					var cd *ast.FuncDecl
					if fn != nil {
						cd = p.decls().byFunc[fn.Origin()]
					}
					if cd == nil || cd.Body == nil {
						badAlias = p.posStr(c.Pos()) + ": an end variable of the sorted set is handed to " + exprKey(c.Fun) + ", whose body is not available: where it is published cannot be ordered with the change of the slice"
						continue
					}
					// the parameter the variable is bound to
					var po types.Object
					idx := 0
					for _, fl := range cd.Type.Params.List {
						for _, nm := range fl.Names {
							if idx == ai {
								po = info.Defs[nm]
							}
							idx++
						}
					}
					ast.Inspect(cd.Body, func(m ast.Node) bool {
						ident, isId := m.(*ast.Ident)
						if !isId || po == nil || info.Uses[ident] != po {
							return true
						}
						// every use of the parameter is the receiver of a generation-guarded Compute
						okUse := false
						ast.Inspect(cd.Body, func(q ast.Node) bool {
							if qc, isCall := q.(*ast.CallExpr); isCall {
								if qs, isSel := ast.Unparen(qc.Fun).(*ast.SelectorExpr); isSel && ast.Unparen(qs.X) == ast.Expr(ident) && guardedCompute(qc) {
									okUse = true
								}
							}
							return !okUse
						})
						if !okUse {
							badAlias = p.posStr(ident.Pos()) + ": the end variable handed to " + cd.Name.Name + " is used other than as the receiver of a Compute whose callback drops stale publications (compares two generation numbers and returns the current value): published outside the set's critical section, an older end can overwrite a newer one"
						}
						return true
					})
				}
				return true
			})
		}
		if badAlias != "" {
			r.Fail(rule, pkg+".sortedSet", "-", badAlias)
		} else {
			r.Pass(rule, pkg+".sortedSet", "-", fmt.Sprintf("%d hand-over(s) of an end variable to a helper, each published through a generation-guarded Compute", nAlias))
		}
	}
	checkLockBalance(r, p, "lock/balance", []string{pkg}, nil, func(k string) bool {
		return hasPrefixAny(k, pkg+".evictionState.", pkg+".sortedSet.")
	})
	// triggers outside the eviction lock
	for _, fd := range p.Methods(pkg, "evictionState") {
		if fd.Body == nil {
			continue
		}
		AnalyzeLocks(fd.Body, LockSet{}, &FlowOpts{Info: info}, func(n ast.Node, stack []ast.Node, held LockSet) {
			if cl, ok := n.(*ast.CallExpr); ok && strings.HasSuffix(exprKey(cl.Fun), ".Trigger") {
				key := pkg + ".evictionState." + fd.Name.Name + " Trigger"
				if len(held) > 0 {
					r.Fail("lock/no-callback-under-lock", key, p.posStr(cl.Pos()), fmt.Sprintf("eviction event triggered while holding %s: subscribers run under the eviction lock", held))
				} else {
					r.Pass("lock/no-callback-under-lock", key, p.posStr(cl.Pos()), "events are triggered after the lock was released")
				}
			}
		})
	}
	if f := p.CFGOf(pkg, "evictionState", "EvictionEvent"); f == nil {
		r.Unresolved("evict/pre-triggered-iff-evicted", pkg+".evictionState.EvictionEvent", "method not found")
	} else {
		fd := p.FuncDecl(pkg, "evictionState", "EvictionEvent")
		recv := recvIdentOf(fd).Name
		last := recv + ".lastEvictedSlot"
		// truth table over (nothing evicted yet, slot > last evicted), whatever the spelling:
		// the shared pre-triggered event is returned exactly when something was evicted and the
		// slot is not after it; otherwise the slot gets (or shares) its own event
		okShape, detail := true, ""
		for _, c := range []struct{ nothing, after bool }{{true, false}, {true, true}, {false, true}, {false, false}} {
			got := f.ReturnsUnder(map[string]bool{
				Rel{last, "==", "nil"}.String():       c.nothing,
				Rel{"*" + last, "<", "slot"}.String(): c.after,
			})
			wantPre := !c.nothing && !c.after
			pre, fresh := got["evictedSlotEvent"], false
			for k := range got {
				if k != "evictedSlotEvent" {
					fresh = true
				}
			}
			if pre != wantPre || fresh == wantPre {
				okShape = false
				detail = fmt.Sprintf("nothing-evicted=%v slot>last=%v returns %v", c.nothing, c.after, got)
			}
		}
		creates := f.Find(func(n ast.Node) bool {
			cl, ok := n.(*ast.CallExpr)
			return ok && strings.HasSuffix(exprKey(cl.Fun), ".evictionEvents.GetOrCreate") && len(cl.Args) == 2 && exprKey(cl.Args[0]) == "slot"
		})
		if okShape && len(creates) > 0 {
			r.Pass("evict/pre-triggered-iff-evicted", pkg+".evictionState.EvictionEvent", p.posStr(fd.Pos()), "a fresh event iff nothing was evicted yet or slot > last evicted; otherwise the pre-triggered event")
		} else {
			r.Fail("evict/pre-triggered-iff-evicted", pkg+".evictionState.EvictionEvent", p.posStr(fd.Pos()), "the pre-triggered event must be returned exactly for slot <= lastEvictedSlot; "+detail)
		}
	}
	if f := p.CFGOf(pkg, "evictionState", "evict"); f == nil {
		r.Unresolved("evict/advance", pkg+".evictionState.evict", "method not found")
	} else {
		already := f.RelEdges(func(rel Rel) bool {
			return rel.Op == "<=" && rel.L == "slot" && strings.HasPrefix(rel.R, "*") && strings.HasSuffix(rel.R, ".lastEvictedSlot")
		})
		isAdvance := func(n ast.Node) bool {
			as, ok := n.(*ast.AssignStmt)
			return ok && len(as.Lhs) == 1 && fieldSel(info, as.Lhs[0], "lastEvictedSlot") && exprKey(as.Rhs[0]) == "&slot"
		}
		ex := map[Edge]bool{}
		for _, e := range already {
			ex[e] = true
		}
		// every path that does not take an already-evicted edge (slot <= last) advances lastEvictedSlot
		w, found := f.reach(f.entry(), &searchOpts{AvoidNode: isAdvance, AvoidEdge: func(e Edge) bool { return ex[e] }}, func(pt Point, atExit bool) bool { return atExit })
		if len(already) == 0 {
			found = true
		}
		// ... and an already evicted slot changes nothing
		for _, e := range already {
			if _, adv := f.reach(Point{e.From.Succs[e.Succ], 0}, nil, func(pt Point, atExit bool) bool {
				return !atExit && containsMatch(f.nodeAt(pt), isAdvance)
			}); adv {
				found = true
			}
		}
		loopOK := false
		for _, l := range f.Loops() {
			if c := condOf(l.Head); c != nil {
				// the loop bound resolved through helper parameters: i <= slot
				hpt := Point{l.Head, len(l.Head.Nodes) - 1}
				if rel, ok := relOfWith(c, func(x ast.Expr) string { return f.KeyAt(x, hpt) }); ok && rel.Op == "<=" && rel.R == "slot" {
					loopOK = true
				}
			}
		}
		if found || !loopOK {
			r.Fail("evict/advance", pkg+".evictionState.evict", f.P.posStr(f.Body.Pos()), "an eviction must collect the events of every slot up to and including the evicted one and advance lastEvictedSlot on every such path", w...)
		} else {
			r.Pass("evict/advance", pkg+".evictionState.evict", f.P.posStr(f.Body.Pos()), "collects slots <= slot and advances lastEvictedSlot on every evicting path")
		}
	}
	// (5) sorted set
	if s, fd := srcNorm(p, pkg, "sortedSet", "swap"); fd == nil {
		r.Unresolved("sorted/slot-index-coupled", pkg+".sortedSet.swap", "method not found")
	} else if hasAll(s, "$.sortedElements[$1.index],$.sortedElements[$2.index]=$.sortedElements[$2.index],$.sortedElements[$1.index]", "$1.index,$2.index=$2.index,$1.index", "=($1.weight<$2.weight)") {
		r.Pass("sorted/slot-index-coupled", pkg+".sortedSet.swap", p.posStr(fd.Pos()), "slots and indices are exchanged together; heavier elements move towards index 0")
	} else {
		r.Fail("sorted/slot-index-coupled", pkg+".sortedSet.swap", p.posStr(fd.Pos()), "swap must exchange the slice slots and the elements' indices together and order by weight: "+s)
	}
	if fd := p.FuncDecl(pkg, "sortedSet", "deleteSorted"); fd != nil {
		// judged on the operation with its stage helpers in place (resolved stores, receiver as $)
		s := ""
		{
			df := newFuncCFG(p, p.Pkg(pkg).TypesInfo, fd.Body, pkg+".sortedSet.deleteSorted")
			s = strings.Join(df.Effects(), "; ")
			if fd.Recv != nil && len(fd.Recv.List) == 1 && len(fd.Recv.List[0].Names) == 1 {
				s = regexp.MustCompile(`\b`+regexp.QuoteMeta(recvIdentOf(fd).Name)+`\.`).ReplaceAllString(s, "$$.")
			}
		}
		if hasAll(s, "$.sortedElements[i]=$.sortedElements[(i+1)]", "$.sortedElements[i].index--", "$.sortedElements=$.sortedElements[:(len($.sortedElements)-1)]") || deleteSortedBySplice(p, pkg, fd) {
			r.Pass("sorted/slot-index-coupled", pkg+".sortedSet.deleteSorted", p.posStr(fd.Pos()), "closing the gap shifts slots and decrements the shifted elements' indices")
		} else {
			r.Fail("sorted/slot-index-coupled", pkg+".sortedSet.deleteSorted", p.posStr(fd.Pos()), "deleting must shift the following slots and decrement their indices: "+s)
		}
	}
	// no unsubscribe under the sorted-set mutex
	for _, m := range []string{"deleteSorted", "addSorted"} {
		fd := p.FuncDecl(pkg, "sortedSet", m)
		if fd == nil {
			r.Unresolved("lock/no-unsubscribe-under-lock", pkg+".sortedSet."+m, "method not found")
			continue
		}
		n := 0
		var bad []string
		seen := map[ast.Node]bool{}
		AnalyzeLocks(fd.Body, LockSet{}, &FlowOpts{Info: info, SyncCallee: syncCalleeDefault(info)}, func(nd ast.Node, stack []ast.Node, held LockSet) {
			cl, ok := nd.(*ast.CallExpr)
			if !ok || seen[cl] {
				return
			}
			if fieldSel(info, cl.Fun, "unsubscribeFromWeightUpdates") {
				seen[cl] = true
				n++
				if len(held) > 0 {
					bad = append(bad, fmt.Sprintf("%s: unsubscribing from the weight variable (takes that subscription's execution lock) while holding %s; the weight callback takes the sorted-set mutex while holding its execution lock (AB-BA dead-lock)", p.posStr(cl.Pos()), held))
				}
			}
		})
		key := pkg + ".sortedSet." + m
		if m == "deleteSorted" && n > 0 {
			// The two ways to keep a late weight update away from a removed element: unsubscribe inside the
			// section that removes it (what the code does - at the price of the recorded AB-BA finding), or
			// unsubscribe afterwards AND let the weight callback check, under the mutex, that the element
			// is still a member before it repositions it. Unsubscribing outside without that check lets an
			// update delivered in between run updatePosition on a detached entry (stale index: live
			// entries are swapped, or a panic at the tail).
			rkey := pkg + ".sortedSet weight callback"
			if len(bad) > 0 {
				r.Pass("sorted/detached-element-not-repositioned", rkey, p.posStr(fd.Pos()), "the subscription is cancelled inside the section that removes the element")
			} else {
				guarded := false
				if afd := p.FuncDecl(pkg, "sortedSet", "addSorted"); afd != nil {
					ast.Inspect(afd.Body, func(nd ast.Node) bool {
						cl, ok := nd.(*ast.CallExpr)
						if !ok || !strings.HasSuffix(rawKey(cl.Fun), ".OnUpdate") || len(cl.Args) == 0 {
							return true
						}
						lit, isLit := ast.Unparen(cl.Args[0]).(*ast.FuncLit)
						if !isLit {
							return true
						}
						lf := newFuncCFG(p, info, lit.Body, rkey)
						ups := lf.Find(func(m ast.Node) bool {
							c, ok := m.(*ast.CallExpr)
							return ok && strings.HasSuffix(rawKey(c.Fun), ".updatePosition")
						})
						var member []Edge
						lf.forEachEdgeFact(func(e Edge, b *cfg.Block, ft fact) {
							k := lf.KeyAt(ft.Atom, Point{b, len(b.Nodes) - 1})
							if strings.Contains(k, ".elements.Has(") || strings.Contains(k, ".elements.Get(") {
								member = append(member, e)
							}
						})
						if len(ups) > 0 && len(member) > 0 {
							guarded = true
							for _, up := range ups {
								if _, only := lf.OnlyThroughEdges(up, member); !only {
									guarded = false
								}
							}
						}
						return true
					})
				}
				if guarded {
					r.Pass("sorted/detached-element-not-repositioned", rkey, p.posStr(fd.Pos()), "the weight callback repositions an element only after a membership test")
				} else {
					r.Fail("sorted/detached-element-not-repositioned", rkey, p.posStr(fd.Pos()), "the removed element is unsubscribed from its weight variable after the sorted-set mutex was released, and the weight callback does not check that the element is still a member: an update delivered in between repositions a detached entry with a stale index (live entries are swapped out of weight order, or the slice is indexed past its end)")
				}
			}
		}
		if m == "deleteSorted" && n == 0 {
			r.Fail("lock/no-unsubscribe-under-lock", key, p.posStr(fd.Pos()), "the deleted element is never unsubscribed from its weight variable")
		} else if len(bad) > 0 {
			r.Fail("lock/no-unsubscribe-under-lock", key, p.posStr(fd.Pos()), bad[0], bad...)
		} else if n > 0 {
			r.Pass("lock/no-unsubscribe-under-lock", key, p.posStr(fd.Pos()), "unsubscribe happens outside the sorted-set mutex")
		}
	}
	// (5b) the weight subscription of addSorted is registered with the initial trigger: its first
	// invocation carries the zero value as "previous weight", not a weight the element ever had. The
	// callback must therefore position the element from its new weight alone - it must not read the
	// previous-value parameter (deciding the direction of the move, or whether to move at all, from
	// new vs previous mis-places every element whose first weight is not above the zero value).
	if fd := p.FuncDecl(pkg, "sortedSet", "addSorted"); fd == nil {
		r.Unresolved("sorted/initial-trigger-ignores-previous", pkg+".sortedSet.addSorted", "method not found")
	} else {
		n, bad := 0, ""
		ast.Inspect(fd.Body, func(nd ast.Node) bool {
			cl, ok := nd.(*ast.CallExpr)
			if !ok || len(cl.Args) != 2 || rawKey(cl.Args[1]) != "true" {
				return true
			}
			se, ok := ast.Unparen(cl.Fun).(*ast.SelectorExpr)
			if !ok || se.Sel.Name != "OnUpdate" {
				return true
			}
			for _, cb := range callbacksIn(p, info, cl.Args[0]) {
				ps := cb.Params(info)
				if len(ps) != 2 {
					continue
				}
				n++
				if ps[0] == nil || ps[0].Name() == "_" {
					continue
				}
				ast.Inspect(cb.Body, func(m ast.Node) bool {
					if id, isId := m.(*ast.Ident); isId && info.Uses[id] == ps[0] && bad == "" {
						bad = p.posStr(id.Pos()) + ": the weight callback reads its previous-value parameter " + id.Name + ", which is the zero value on the initial invocation"
					}
					return true
				})
			}
			return true
		})
		switch {
		case n == 0:
			r.Fail("sorted/initial-trigger-ignores-previous", pkg+".sortedSet.addSorted", p.posStr(fd.Pos()), "no weight subscription with the initial trigger found (vacuous)")
		case bad != "":
			r.Fail("sorted/initial-trigger-ignores-previous", pkg+".sortedSet.addSorted", p.posStr(fd.Pos()), bad)
		default:
			r.Pass("sorted/initial-trigger-ignores-previous", pkg+".sortedSet.addSorted", p.posStr(fd.Pos()), "the weight callback positions the element from the new weight alone")
		}
	}
	// (6) counter monitor
	if fd := p.FuncDecl(pkg, "counter", "Monitor"); fd == nil {
		r.Unresolved("counter/condition-memory", pkg+".counter.Monitor", "method not found")
	} else {
		// the compute closure: in Monitor itself, or in the subscriber when that is a method of an
		// input-state struct handed to OnUpdate as a method value (the remembered condition is then a
		// field of that struct instead of a captured variable)
		var lit *ast.FuncLit
		scopes := []ast.Node{fd.Body}
		for _, cb := range callbacksIn(p, info, fd.Body) {
			if cb.Decl != nil && cb.Recv != nil {
				scopes = append(scopes, cb.Body)
			}
		}
		for _, sc := range scopes {
			ast.Inspect(sc, func(n ast.Node) bool {
				if cl, ok := n.(*ast.CallExpr); ok && strings.HasSuffix(exprKey(cl.Fun), ".Compute") && len(cl.Args) == 1 {
					if l, ok := cl.Args[0].(*ast.FuncLit); ok {
						lit = l
					}
				}
				return true
			})
		}
		key := pkg + ".counter.Monitor"
		if lit == nil {
			r.Fail("counter/condition-memory", key, p.posStr(fd.Pos()), "no compute closure found")
		} else {
			lf := newFuncCFG(p, info, lit.Body, key)
			// by role: the fresh condition value is the variable bound to a call of the counter's condition;
			// the remembered one is what it is compared with (state declared outside the closure); the
			// count is the closure's parameter
			var fresh, cur types.Object
			if ps := litParamObjs(info, lit); len(ps) == 1 {
				cur = ps[0]
			}
			ast.Inspect(lit.Body, func(n ast.Node) bool {
				if as, ok := n.(*ast.AssignStmt); ok && len(as.Lhs) == 1 && len(as.Rhs) == 1 {
					if cl, ok := ast.Unparen(as.Rhs[0]).(*ast.CallExpr); ok && fieldSel(info, cl.Fun, "condition") {
						fresh = objOfIdent(info, as.Lhs[0])
					}
				}
				return true
			})
			isFresh := func(e ast.Expr) bool { return fresh != nil && objOfIdent(info, e) == fresh }
			memKey := ""
			var changed []Edge
			lf.forEachEdgeFact(func(e Edge, b *cfg.Block, ft fact) {
				be, ok := ast.Unparen(ft.Atom).(*ast.BinaryExpr)
				if !ok || (be.Op != token.NEQ && be.Op != token.EQL) {
					return
				}
				var other ast.Expr
				switch {
				case isFresh(be.X):
					other = be.Y
				case isFresh(be.Y):
					other = be.X
				default:
					return
				}
				ro := rootObj(info, other)
				if ro == nil || (ro.Pos() >= lit.Pos() && ro.Pos() <= lit.End()) {
					return // not state that outlives one invocation
				}
				if memKey != "" && memKey != exprKey(other) {
					return
				}
				memKey = exprKey(other)
				if (be.Op == token.NEQ) == ft.Pol {
					changed = append(changed, e)
				}
			})
			isMem := func(n ast.Node) bool {
				as, ok := n.(*ast.AssignStmt)
				return ok && len(as.Lhs) == 1 && len(as.Rhs) == 1 && memKey != "" && exprKey(as.Lhs[0]) == memKey && isFresh(as.Rhs[0])
			}
			isCount := func(n ast.Node) bool {
				s, ok := n.(*ast.IncDecStmt)
				return ok && cur != nil && objOfIdent(info, s.X) == cur
			}
			ok := len(changed) > 0
			for _, pt := range append(lf.Find(isMem), lf.Find(isCount)...) {
				if _, only := lf.OnlyThroughEdges(pt, changed); !only {
					ok = false
				}
			}
			for _, e := range changed {
				for _, pred := range []func(ast.Node) bool{isMem, isCount} {
					if _, found := lf.reach(Point{e.From.Succs[e.Succ], 0}, &searchOpts{AvoidNode: pred}, func(pt Point, atExit bool) bool { return atExit }); found {
						ok = false
					}
				}
			}
			incT, _ := lf.CondEdges(isFresh)
			for _, pt := range lf.Find(func(n ast.Node) bool {
				s, isID := n.(*ast.IncDecStmt)
				return isID && s.Tok == token.INC && isCount(n)
			}) {
				if _, only := lf.OnlyThroughEdges(pt, incT); !only {
					ok = false
				}
			}
			if ok {
				r.Pass("counter/condition-memory", key, p.posStr(lit.Pos()), "count changes and the remembered condition is updated on exactly the paths where the condition flipped; ++ on becoming true, -- otherwise")
			} else {
				r.Fail("counter/condition-memory", key, p.posStr(lit.Pos()), "the count must change by one exactly when the monitored condition flips, and the remembered condition must be updated on the same paths")
			}
		}
	}
	_ = types.Universe
}

func checkDerivedVariableWiring(r *Reporter, p *Prog, pkg string, fd *ast.FuncDecl) {
	info := p.Pkg(pkg).TypesInfo
	key := pkg + "." + fd.Name.Name
	// inputs: parameters named inputK of the constructor, in order (after `compute`)
	var inputs []types.Object
	var compute types.Object
	for _, po := range paramObjs(info, fd) {
		if po == nil {
			continue
		}
		if po.Name() == "compute" {
			compute = po
		} else if strings.HasPrefix(po.Name(), "input") {
			inputs = append(inputs, po)
		}
	}
	if compute == nil || len(inputs) == 0 {
		r.Fail("derived/wiring", key, p.posStr(fd.Pos()), "constructor must take compute and the input variables")
		return
	}
	subscribed := map[int]bool{}
	var bad []string
	// checkRecompute: inside the subscriber literal, compute is called with the new value at the
	// subscribed input's position and inputJ.Get() at every other position
	var checkRecompute func(lit *ast.FuncLit, idx int, newVal types.Object)
	checkRecompute = func(lit *ast.FuncLit, idx int, newVal types.Object) {
		found := false
		ast.Inspect(lit.Body, func(m ast.Node) bool {
			c2, ok := m.(*ast.CallExpr)
			if !ok || objOfIdent(info, c2.Fun) != compute {
				return true
			}
			found = true
			if len(c2.Args) != len(inputs)+1 {
				bad = append(bad, fmt.Sprintf("input %d: compute called with %d arguments, want %d", idx+1, len(c2.Args), len(inputs)+1))
				return true
			}
			for j := range inputs {
				a := c2.Args[j+1]
				if j == idx {
					if objOfIdent(info, a) != newVal || newVal == nil {
						bad = append(bad, fmt.Sprintf("subscription of input %d must pass the callback's new value at position %d, found %s", idx+1, j+1, exprKey(a)))
					}
				} else {
					g, isCall := ast.Unparen(a).(*ast.CallExpr)
					okGet := false
					if isCall {
						if gse, ok := ast.Unparen(g.Fun).(*ast.SelectorExpr); ok && gse.Sel.Name == "Get" && objOfIdent(info, gse.X) == inputs[j] {
							okGet = true
						}
					}
					if !okGet {
						bad = append(bad, fmt.Sprintf("subscription of input %d must read input %d with input%d.Get() at position %d, found %s", idx+1, j+1, j+1, j+1, exprKey(a)))
					}
				}
			}
			return true
		})
		if !found {
			bad = append(bad, fmt.Sprintf("subscription of input %d never recomputes", idx+1))
		}
	}
	ast.Inspect(fd.Body, func(n ast.Node) bool {
		cl, ok := n.(*ast.CallExpr)
		if !ok {
			return true
		}
		// a subscription through a forwarding helper of the package, verified on its own body:
		// h(d, inputK, func(current, newValue) T { return compute(current, ...) })
		if fn := staticCallee(info, cl); fn != nil {
			if hd := p.decls().byFunc[fn.Origin()]; hd != nil && hd.Recv == nil && !hd.Name.IsExported() && p.decls().infoOf[hd] == info {
				if inIdx, fnIdx, okH := forwardingSubscription(info, hd); okH && inIdx < len(cl.Args) && fnIdx < len(cl.Args) {
					idx := -1
					for i, in := range inputs {
						if objOfIdent(info, cl.Args[inIdx]) == in {
							idx = i
						}
					}
					if lit, isLit := ast.Unparen(cl.Args[fnIdx]).(*ast.FuncLit); isLit && idx >= 0 && lit.Type.Params.NumFields() == 2 {
						subscribed[idx] = true
						var newVal types.Object
						if names := lit.Type.Params.List[len(lit.Type.Params.List)-1].Names; len(names) > 0 {
							newVal = info.Defs[names[len(names)-1]]
						}
						checkRecompute(lit, idx, newVal)
						return false
					}
				}
			}
		}
		se, ok := ast.Unparen(cl.Fun).(*ast.SelectorExpr)
		if !ok || se.Sel.Name != "OnUpdate" {
			return true
		}
		idx := -1
		for i, in := range inputs {
			if objOfIdent(info, se.X) == in {
				idx = i
			}
		}
		if idx < 0 {
			return true
		}
		subscribed[idx] = true
		if len(cl.Args) != 2 || exprKey(cl.Args[1]) != "true" {
			bad = append(bad, fmt.Sprintf("input %d is subscribed without the initial trigger: the derived value is not computed until that input changes", idx+1))
		}
		lit, ok := cl.Args[0].(*ast.FuncLit)
		if !ok || lit.Type.Params.NumFields() != 2 {
			bad = append(bad, fmt.Sprintf("input %d: subscriber is not a two-argument literal", idx+1))
			return true
		}
		var newVal types.Object
		if names := lit.Type.Params.List[len(lit.Type.Params.List)-1].Names; len(names) > 0 {
			newVal = info.Defs[names[len(names)-1]]
		}
		checkRecompute(lit, idx, newVal)
		return true
	})
	for i := range inputs {
		if !subscribed[i] {
			bad = append(bad, fmt.Sprintf("input %d is never subscribed: changes of it do not reach the derived value", i+1))
		}
	}
	if len(bad) > 0 {
		r.Fail("derived/wiring", key, p.posStr(fd.Pos()), bad[0], bad...)
	} else {
		r.Pass("derived/wiring", key, p.posStr(fd.Pos()), fmt.Sprintf("%d inputs, each subscribed with initial trigger; argument i is the new value in subscription i and Get() elsewhere", len(inputs)))
	}
}

func isRecvName(e ast.Expr, name string) bool {
	id, ok := ast.Unparen(e).(*ast.Ident)
	return ok && id.Name == name
}

// rawKey2 renders a block as the concatenation of the keys of its calls (enough to look for a callee).
func rawKey2(b *ast.BlockStmt) string {
	var sb strings.Builder
	ast.Inspect(b, func(n ast.Node) bool {
		if c, ok := n.(*ast.CallExpr); ok {
			sb.WriteString(rawKey(c.Fun))
			sb.WriteString("(;")
		}
		return true
	})
	return sb.String()
}

// forwardingSubscription verifies a package-level helper of the shape
//
//	func h(d, input, recompute) func() {
//		return input.OnUpdate(func(_, v) { d.Compute(func(cur) T { return recompute(cur, v) }) }, true)
//	}
//
// and returns the positions of the input and of the recompute function among its parameters: the
// one OnUpdate call is made on a parameter with the initial trigger, and inside its subscriber a
// function-typed parameter is called with (the current value of the enclosing Compute literal, the
// subscriber's new value).
func forwardingSubscription(info *types.Info, hd *ast.FuncDecl) (inIdx, fnIdx int, ok bool) {
	params := paramObjs(info, hd)
	idxOf := func(o types.Object) int {
		for i, po := range params {
			if po != nil && po == o {
				return i
			}
		}
		return -1
	}
	inIdx, fnIdx = -1, -1
	nOn := 0
	ast.Inspect(hd.Body, func(n ast.Node) bool {
		cl, isCall := n.(*ast.CallExpr)
		if !isCall {
			return true
		}
		se, isSel := ast.Unparen(cl.Fun).(*ast.SelectorExpr)
		if !isSel || se.Sel.Name != "OnUpdate" {
			return true
		}
		nOn++
		if len(cl.Args) != 2 || rawKey(cl.Args[1]) != "true" {
			return true
		}
		lit, isLit := ast.Unparen(cl.Args[0]).(*ast.FuncLit)
		if !isLit || lit.Type.Params.NumFields() != 2 {
			return true
		}
		var newVal types.Object
		if names := lit.Type.Params.List[len(lit.Type.Params.List)-1].Names; len(names) > 0 {
			newVal = info.Defs[names[len(names)-1]]
		}
		i := idxOf(objOfIdent(info, se.X))
		if i < 0 || newVal == nil {
			return true
		}
		// inside: X.Compute(func(cur) { return P(cur, newVal) })
		ast.Inspect(lit.Body, func(m ast.Node) bool {
			cc, isC := m.(*ast.CallExpr)
			if !isC {
				return true
			}
			cse, isS := ast.Unparen(cc.Fun).(*ast.SelectorExpr)
			if !isS || cse.Sel.Name != "Compute" || len(cc.Args) != 1 {
				return true
			}
			inner, isL := ast.Unparen(cc.Args[0]).(*ast.FuncLit)
			if !isL || inner.Type.Params.NumFields() != 1 || len(inner.Type.Params.List[0].Names) != 1 {
				return true
			}
			cur := info.Defs[inner.Type.Params.List[0].Names[0]]
			ast.Inspect(inner.Body, func(q ast.Node) bool {
				pc, isP := q.(*ast.CallExpr)
				if !isP || len(pc.Args) != 2 {
					return true
				}
				j := idxOf(objOfIdent(info, pc.Fun))
				if j >= 0 && objOfIdent(info, pc.Args[0]) == cur && objOfIdent(info, pc.Args[1]) == newVal {
					inIdx, fnIdx = i, j
				}
				return true
			})
			return true
		})
		return true
	})
	return inIdx, fnIdx, nOn == 1 && inIdx >= 0 && fnIdx >= 0
}

// deleteSortedBySplice recognises the library form of closing the gap: the slot of the deleted
// element is cut out with slices.Delete(S, k, k+1) or append(S[:k], S[k+1:]...), and afterwards a
// loop over exactly S[k:] decrements the index of every element it visits (the elements are
// pointers, so the range value denotes the stored element).
func deleteSortedBySplice(p *Prog, pkg string, fd *ast.FuncDecl) bool {
	info := p.Pkg(pkg).TypesInfo
	df := newFuncCFG(p, info, fd.Body, pkg+".sortedSet.deleteSorted/splice")
	isS := func(e ast.Expr) bool { return fieldSel(info, e, "sortedElements") }
	var cutPt *Point
	cutKey := ""
	nCuts := 0
	for _, pt := range df.Find(func(n ast.Node) bool {
		as, ok := n.(*ast.AssignStmt)
		return ok && len(as.Lhs) == 1 && len(as.Rhs) == 1 && as.Tok == token.ASSIGN && isS(as.Lhs[0])
	}) {
		as := df.nodeAt(pt).(*ast.AssignStmt)
		cl, ok := ast.Unparen(as.Rhs[0]).(*ast.CallExpr)
		if !ok {
			continue
		}
		k := ""
		switch {
		case qualifiedCallee(info, cl) == "slices.Delete" && len(cl.Args) == 3 && isS(cl.Args[0]):
			lo, hi := df.KeyAt(cl.Args[1], pt), df.KeyAt(cl.Args[2], pt)
			if hi == "("+lo+"+1)" {
				k = lo
			}
		case rawKey(cl.Fun) == "append" && len(cl.Args) == 2 && cl.Ellipsis.IsValid():
			a, okA := ast.Unparen(cl.Args[0]).(*ast.SliceExpr)
			b, okB := ast.Unparen(cl.Args[1]).(*ast.SliceExpr)
			if okA && okB && isS(a.X) && isS(b.X) && a.Low == nil && a.High != nil && a.Max == nil && b.Low != nil && b.High == nil {
				lo, hi := df.KeyAt(a.High, pt), df.KeyAt(b.Low, pt)
				if hi == "("+lo+"+1)" {
					k = lo
				}
			}
		}
		if k != "" && strings.HasSuffix(k, ".index") {
			q := pt
			cutPt, cutKey = &q, k
			nCuts++
		}
	}
	if nCuts != 1 {
		return false
	}
	nLoops := 0
	for _, l := range df.Loops() {
		rs, ok := l.Stmt.(*ast.RangeStmt)
		if !ok || rs.Value == nil || len(rs.Body.List) != 1 {
			continue
		}
		se, ok := ast.Unparen(rs.X).(*ast.SliceExpr)
		if !ok || !isS(se.X) || se.Low == nil || se.High != nil {
			continue
		}
		dec, ok := rs.Body.List[0].(*ast.IncDecStmt)
		if !ok || dec.Tok != token.DEC {
			continue
		}
		sel, ok := ast.Unparen(dec.X).(*ast.SelectorExpr)
		if !ok || sel.Sel.Name != "index" || objOfIdent(info, sel.X) == nil || objOfIdent(info, sel.X) != objOfIdent(info, rs.Value) {
			continue
		}
		if _, isPtr := info.TypeOf(rs.Value).(*types.Pointer); !isPtr {
			continue
		}
		if df.KeyAt(se.Low, Point{l.Head, 0}) != cutKey {
			continue
		}
		// the loop runs after the cut, on every path
		if _, after := df.reachBlock(*cutPt, nil, func(b *cfg.Block) bool { return b == l.Head }, false); !after {
			continue
		}
		if _, skip := df.reachBlock(*cutPt, &searchOpts{AvoidEdge: func(e Edge) bool { return e.From.Succs[e.Succ] == l.Head }}, func(*cfg.Block) bool { return false }); skip {
			continue
		}
		nLoops++
	}
	return nLoops == 1
}
