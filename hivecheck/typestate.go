package main

// A small typestate engine over go/cfg: abstract states are strings, the transfer function
// maps (block node, state) to successor states or a violation; branch conditions may filter
// states (boolean-flag correlation). Exhaustive over (block, state) pairs, so every path is
// covered up to the abstraction. Used where a protocol object must be driven through its
// states exactly once on all paths (DESIGN C08.4).

import (
	"go/ast"

	"golang.org/x/tools/go/cfg"
)

type tsViolation struct {
	Pos  string
	Msg  string
	Path []string
}

type Typestate struct {
	F *FuncCFG
	// Transfer processes one block node. It returns the successor states; err != "" reports a
	// protocol violation for this (node, state).
	Transfer func(n ast.Node, s string) (next []string, err string)
	// Filter: may state s take the given branch of cond? nil = always.
	Filter func(cond ast.Expr, branch bool, s string) bool
	// AtExit: err != "" if ending the function in state s violates the protocol.
	AtExit func(s string) string
	// Cur is the point of the node being transferred (for resolving identifiers through
	// expanded helpers).
	Cur Point
}

// Run explores from the entry with the given initial states. It returns the set of states at
// normal exits and all violations (deduplicated by position+message).
func (t *Typestate) Run(init []string) (exits map[string]bool, viols []tsViolation) {
	type key struct {
		b *cfg.Block
		s string
	}
	type item struct {
		k    key
		path []string
	}
	exits = map[string]bool{}
	seen := map[key]bool{}
	seenViol := map[string]bool{}
	var work []item
	for _, s := range init {
		work = append(work, item{key{t.F.G.Blocks[0], s}, nil})
	}
	addViol := func(pos, msg string, path []string) {
		if !seenViol[pos+msg] {
			seenViol[pos+msg] = true
			viols = append(viols, tsViolation{pos, msg, path})
		}
	}
	for len(work) > 0 {
		it := work[len(work)-1]
		work = work[:len(work)-1]
		if seen[it.k] {
			continue
		}
		seen[it.k] = true
		states := []string{it.k.s}
		path := it.path
		if len(it.k.b.Nodes) > 0 {
			path = append(append([]string{}, path...), t.F.P.posStr(it.k.b.Nodes[0].Pos())+" ["+it.k.s+"]")
		}
		for ni, n := range it.k.b.Nodes {
			var nextStates []string
			t.Cur = Point{it.k.b, ni}
			for _, s := range states {
				ns, err := t.Transfer(n, s)
				if err != "" {
					addViol(t.F.P.posStr(n.Pos()), err+" (state "+s+")", path)
					continue
				}
				nextStates = append(nextStates, ns...)
			}
			states = uniq(nextStates)
		}
		if t.F.isExitBlock(it.k.b) {
			for _, s := range states {
				exits[s] = true
				if t.AtExit != nil {
					if err := t.AtExit(s); err != "" {
						addViol(t.F.P.posStr(t.F.Body.Rbrace), err+" (state "+s+")", path)
					}
				}
			}
		}
		cond := condOf(it.k.b)
		for si, succ := range it.k.b.Succs {
			if !succ.Live {
				continue
			}
			for _, s := range states {
				if cond != nil && t.Filter != nil && !t.Filter(cond, si == 0, s) {
					continue
				}
				work = append(work, item{key{succ, s}, path})
			}
		}
	}
	return exits, viols
}

func uniq(ss []string) []string {
	seen := map[string]bool{}
	var out []string
	for _, s := range ss {
		if !seen[s] {
			seen[s] = true
			out = append(out, s)
		}
	}
	return out
}

func sortStrings(s []string) {
	for i := 1; i < len(s); i++ {
		for j := i; j > 0 && s[j] < s[j-1]; j-- {
			s[j], s[j-1] = s[j-1], s[j]
		}
	}
}
