package main

import (
	"fmt"
	"go/ast"
	"go/constant"
	"go/token"
	"go/types"
	"golang.org/x/tools/go/cfg"
	"strings"
)

func init() {
	register(&property{
		ID:    "C09",
		Run:   runC09,
		Modes: []string{"deadlock", "stacktrace"},
		Meta: propMeta{
			Explanation: "Static clauses of the authenticated map/set (ads, with kvstore typed wrappers resolved to the working tree) on all CFG paths: (1) the non-thread-safe trie and every mutation of the raw-key store and size happen only under the map mutex (helpers has/addSize are caller-holds), locks balanced; (2) every trie/store/codec error is tested and propagated, failure branches return non-nil errors; (3) size accounting: membership is read before the trie is mutated, +1 only on the not-present edge of Set, -1 and both deletions only on the present edge of Delete, Set mirrors every successful trie update into the raw-key store; (4) Commit stores the trie root under the root key and commits the trie on every success path; the constructor imports from the stored root only when reading it succeeded and disables the value hasher for both constructors; WasRestoredFromStorage derives from the same root key; (5) the four storage prefixes are pairwise distinct and all used; (6) the trie store adapter forwards Get/Set/Delete/Clear with parameters in order.",
			NotDecided:  "root canonicity and collision freedom (properties of pokt-network/smt), agreement with a map model over histories, empty-value semantics of the trie",
			Assumptions: []string{"pokt-network/smt is not thread-safe and reports failures through error results"},
		},
	})
}

func runC09(c *Ctx) {
	p := c.Load("ads")
	if p == nil {
		return
	}
	r := c.R
	const pkg = "ads"
	pk := p.Pkg(pkg)
	if pk == nil {
		r.Unresolved("load", "ads", "package not found")
		return
	}
	info := pk.TypesInfo
	// a failure branch reports the error it is the branch of (never another, known-nil error variable)
	checkFailureBranchReportsOwnError(r, p, pkg)
	methods := p.Methods(pkg, "authenticatedMap")
	// non-vacuity floor on the exported operations (the unexported helpers may be methods, package-level
	// functions, or inlined)
	nExp := 0
	for _, fd := range methods {
		if fd.Name.IsExported() {
			nExp++
		}
	}
	if nExp < 9 {
		r.Unresolved("anchors", "ads.authenticatedMap", fmt.Sprintf("expected >= 9 exported methods, found %d", nExp))
	}
	// (0) the map keeps its raw keys, its tree nodes and its size in sub-realms obtained with
	// WithExtendedRealm from the store it is handed: sibling sub-realms of the map store never share
	// the bytes of their realm
	if pkv := c.Load("kvstore"); pkv != nil {
		checkExtendedRealm(r, pkv, "kvstore/mapdb", "mapDB")
	}
	// the map keeps its size in a TypedValue and its raw keys in a TypedStore: the typed views are
	// transparent and error-faithful (every obligation of C06, which brings the map store's copy
	// discipline and the error constructors' contract with it)
	runC06(c)
	// (1) locks
	checkGuards(r, p, "lock/guarded-by", []GuardRow{
		{Pkg: pkg, Type: "authenticatedMap", Mutex: "mutex", Fields: []string{"tree"},
			Mutators: map[string][]string{"tree": {"Update", "Delete", "Commit"}},
			CH:       map[string]LockMode{"has": ModeR, "addSize": ModeW}},
		{Pkg: pkg, Type: "authenticatedMap", Mutex: "mutex", Fields: []string{"rawKeysStore", "size"},
			Mutators: map[string][]string{"rawKeysStore": {"Set", "Delete", "DeletePrefix", "Clear"}, "size": {"Set", "Delete", "Compute"}}, WOnly: true},
	})
	checkLockBalance(r, p, "lock/balance", []string{pkg}, nil, nil)
	// (2) errors
	all := p.AllFuncDecls(pkg)
	checkErrChecked(r, p, "err/checked", errScope{Pkg: pkg, Funcs: all})
	for _, fd := range all {
		checkFailureReturnsNonNil(r, p, pkg, fd, map[string]string{"ErrKeyNotFound": "addSize: a missing size entry means size 0"})
	}
	// Stream: stop and report
	if fd := p.FuncDecl(pkg, "authenticatedMap", "Stream"); fd != nil {
		checkStreamStopAndReport(r, p, pkg, fd)
	} else {
		r.Unresolved("iterate/stop-and-report", "ads.authenticatedMap.Stream", "method not found")
	}

	checkPresencePredicate(r, p, pkg, info, methods)
	checkStoredValueNonNil(r, p, pkg, info)

	// the parts of the map are recognised as the field itself or as a value of the field's type handed
	// to a helper (`treeHas(m.tree, k)` operates on its parameter): the tree and the size counter each
	// have a type no other field of the map has
	partIs := adsPartIs(p, pkg, info)
	treeCall := func(name string) func(*ast.CallExpr) bool {
		return func(c *ast.CallExpr) bool {
			se, ok := ast.Unparen(c.Fun).(*ast.SelectorExpr)
			return ok && se.Sel.Name == name && partIs(se.X, "tree")
		}
	}
	fieldCall := func(field, name string) func(*ast.CallExpr) bool {
		return func(c *ast.CallExpr) bool {
			se, ok := ast.Unparen(c.Fun).(*ast.SelectorExpr)
			return ok && se.Sel.Name == name && partIs(se.X, field)
		}
	}
	// helpers by role, not by name: a call of an unexported function or method of the package (spliced
	// into the operation) whose body performs the given operation on the given part
	roleCall := func(f *FuncCFG, pred func(*ast.CallExpr) bool) func(*ast.CallExpr) bool {
		return func(c *ast.CallExpr) bool {
			reg := f.regionByCall(c)
			if reg == nil || reg.fd == nil || reg.fd.Body == nil {
				return false
			}
			hit := false
			inspectNoLit(reg.fd.Body, func(n ast.Node) bool {
				if cc, ok := n.(*ast.CallExpr); ok && pred(cc) {
					hit = true
				}
				return !hit
			})
			return hit
		}
	}
	// (3) size accounting
	type acct struct {
		method     string
		mutate     string // trie mutation
		mirror     string // raw-key store mutation
		delta      string
		presentEdg bool // edge of `has` that licenses the size change
	}
	sizeHelpers := map[*ast.FuncDecl]bool{}
	for _, a := range []acct{{"Set", "Update", "Set", "1", false}, {"Delete", "Delete", "Delete", "-1", true}} {
		key := "ads.authenticatedMap." + a.method
		f := p.CFGOf(pkg, "authenticatedMap", a.method)
		if f == nil {
			r.Unresolved("size/accounting", key, "method not found")
			continue
		}
		hasCalls := f.Calls(roleCall(f, treeCall("Get")))
		muts := f.Calls(treeCall(a.mutate))
		mirrors := f.Calls(fieldCall("rawKeysStore", a.mirror))
		sizes := f.Calls(roleCall(f, fieldCall("size", "Set")))
		if len(hasCalls) != 1 || len(muts) != 1 || len(mirrors) != 1 || len(sizes) != 1 {
			r.Fail("size/accounting", key, f.P.posStr(f.Body.Pos()), fmt.Sprintf("expected one each of membership helper (tree.Get)/tree.%s/rawKeysStore.%s/size helper (size.Set), found %d/%d/%d/%d", a.mutate, a.mirror, len(hasCalls), len(muts), len(mirrors), len(sizes)))
			continue
		}
		sizeHelpers[p.decls().byFunc[staticCallee(info, sizes[0])]] = true
		hasPt, _ := f.PointOf(hasCalls[0])
		mutPt, _ := f.PointOf(muts[0])
		mirPt, _ := f.PointOf(mirrors[0])
		sizePt, _ := f.PointOf(sizes[0])
		// membership read before the mutation
		if _, found := f.reach(Point{mutPt.B, mutPt.I + 1}, nil, func(pt Point, atExit bool) bool { return !atExit && f.At(pt, hasPt) }); found || !pathExists(f, hasPt, mutPt) {
			r.Fail("size/has-before-mutation", key, f.PosOf(hasPt), "membership must be read before the trie is mutated (afterwards it always reports the new state and the size drifts)")
		} else {
			r.Pass("size/has-before-mutation", key, f.PosOf(hasPt), "has(key) precedes tree."+a.mutate)
		}
		// the has variable
		var hasVar types.Object
		inspectNoLit(f.Body, func(n ast.Node) bool {
			if as, ok := n.(*ast.AssignStmt); ok && len(as.Rhs) == 1 && ast.Unparen(as.Rhs[0]) == ast.Expr(hasCalls[0]) && len(as.Lhs) == 2 {
				hasVar = objOfIdent(info, as.Lhs[0])
			}
			return true
		})
		if hasVar == nil {
			// the membership test sits in an expanded helper that hands the variable back as its first
			// result on every success return ((has, nil)): the caller's variable bound to that result
			var inner types.Object
			ast.Inspect(f.nodeAt(hasPt), func(n ast.Node) bool {
				if as, ok := n.(*ast.AssignStmt); ok && len(as.Rhs) == 1 && ast.Unparen(as.Rhs[0]) == ast.Expr(hasCalls[0]) && len(as.Lhs) == 2 {
					inner = objOfIdent(info, as.Lhs[0])
				}
				return true
			})
			if inner != nil {
				inspectNoLit(f.Body, func(n ast.Node) bool {
					as, ok := n.(*ast.AssignStmt)
					if !ok || len(as.Rhs) != 1 || len(as.Lhs) != 2 {
						return true
					}
					c, isCall := ast.Unparen(as.Rhs[0]).(*ast.CallExpr)
					if !isCall {
						return true
					}
					reg := f.regionByCall(c)
					fn := staticCallee(info, c)
					if reg == nil || fn == nil {
						return true
					}
					hd := p.decls().byFunc[fn.Origin()]
					if hd == nil || !(hd.Pos() <= hasCalls[0].Pos() && hasCalls[0].Pos() < hd.End()) {
						return true
					}
					okRets, nSucc := true, 0
					// the helper binds the membership variable once (the has() call) and never again
					nBind := 0
					ast.Inspect(hd.Body, func(m ast.Node) bool {
						switch x := m.(type) {
						case *ast.AssignStmt:
							for _, l := range x.Lhs {
								if objOfIdent(info, l) == inner {
									nBind++
								}
							}
						case *ast.UnaryExpr:
							if x.Op == token.AND && objOfIdent(info, x.X) == inner {
								nBind += 2
							}
						}
						return true
					})
					if nBind != 1 {
						okRets = false
					}
					for _, rt := range reg.rets {
						if len(rt.results) != 2 {
							okRets = false
							continue
						}
						if isNil(info, rt.results[1]) {
							nSucc++
							if objOfIdent(info, rt.results[0]) != inner {
								okRets = false
							}
						} else if ec, isCall := ast.Unparen(rt.results[1]).(*ast.CallExpr); !isCall || !isNonNilErrorConstructor(calleeShort(info, ec)) {
							okRets = false // an error result that may be nil with a different first result
						}
					}
					if okRets && nSucc > 0 {
						hasVar = objOfIdent(info, as.Lhs[0])
					}
					return true
				})
			}
		}
		if hasVar == nil {
			r.Fail("size/accounting", key, f.PosOf(hasPt), "result of has() is not bound to a variable")
			continue
		}
		tEdges, fEdges := f.VarEdges(hasVar)
		lic := fEdges
		licName := "not-present"
		if a.presentEdg {
			lic = tEdges
			licName = "present"
		}
		if w, ok := f.OnlyThroughEdges(sizePt, lic); !ok {
			r.Fail("size/accounting", key+" addSize", f.PosOf(sizePt), "the size is adjusted on a path that did not establish the key was "+licName+" before the operation", w...)
		} else if d := constArgs(info, sizes[0]); len(d) != 1 || d[0] != a.delta {
			r.Fail("size/accounting", key+" addSize", f.PosOf(sizePt), fmt.Sprintf("size delta must be %s, found %v", a.delta, d))
		} else {
			r.Pass("size/accounting", key+" addSize", f.PosOf(sizePt), "addSize("+a.delta+") only on the "+licName+" edge of the earlier membership test")
		}
		if a.presentEdg {
			// Delete touches nothing when absent
			for _, pt := range []Point{mutPt, mirPt} {
				if w, ok := f.OnlyThroughEdges(pt, tEdges); !ok {
					r.Fail("size/accounting", key+" absent-is-noop", f.PosOf(pt), "a deletion is reachable for a key that was not present", w...)
				} else {
					r.Pass("size/accounting", key+" absent-is-noop", f.PosOf(pt), "deletions only on the present edge")
				}
			}
			// and returns false,nil there
			okRet := false
			for _, pt := range f.Find(func(n ast.Node) bool { _, ok := n.(*ast.ReturnStmt); return ok }) {
				rs := f.nodeAt(pt).(*ast.ReturnStmt)
				if _, only := f.OnlyThroughEdges(pt, fEdges); only && len(rs.Results) == 2 && exprKey(rs.Results[0]) == "false" && isNil(info, rs.Results[1]) {
					okRet = true
				}
			}
			if okRet {
				r.Pass("size/accounting", key+" reports-absence", f.PosOf(hasPt), "absent key returns (false, nil)")
			} else {
				r.Fail("size/accounting", key+" reports-absence", f.PosOf(hasPt), "Delete must return (false, nil) for an absent key")
			}
			// success return is true
			okTrue := false
			inspectNoLit(f.Body, func(n ast.Node) bool {
				if rs, ok := n.(*ast.ReturnStmt); ok && len(rs.Results) == 2 && exprKey(rs.Results[0]) == "true" && isNil(info, rs.Results[1]) {
					okTrue = true
				}
				return true
			})
			if !okTrue {
				r.Fail("size/accounting", key+" reports-presence", f.PosOf(hasPt), "Delete must return (true, nil) after deleting a present key")
			}
		}
		// mirror: after the trie mutation succeeded, every nil-error return passes the raw-key mutation and the size helper (if licensed)
		succ, _ := f.ErrEdges(muts[0])
		if len(succ) == 0 {
			r.Fail("size/mirror", key, f.PosOf(mutPt), "the trie mutation's error is not tested")
			continue
		}
		bad := false
		for _, e := range succ {
			if w, found := f.reach(Point{e.From.Succs[e.Succ], 0}, &searchOpts{AvoidNode: func(n ast.Node) bool { return n == ast.Node(mirrors[0]) }}, func(pt Point, atExit bool) bool {
				if atExit {
					return false
				}
				rs, ok := f.nodeAt(pt).(*ast.ReturnStmt)
				return ok && len(rs.Results) > 0 && isNil(info, rs.Results[len(rs.Results)-1])
			}); found {
				bad = true
				r.Fail("size/mirror", key, f.PosOf(mutPt), "after a successful trie mutation a success return is reachable without mirroring it into the raw-key store (Stream and the trie diverge)", w...)
			}
		}
		if !bad {
			r.Pass("size/mirror", key, f.PosOf(mutPt), "every success return after tree."+a.mutate+" passes rawKeysStore."+a.mirror)
		}
	}
	// shape of the size helper (found by role: the helper Set and Delete adjust the size through)
	if len(sizeHelpers) != 1 {
		r.Unresolved("size/helper", "ads.authenticatedMap.addSize", fmt.Sprintf("expected one size helper shared by Set and Delete, found %d", len(sizeHelpers)))
	}
	for fd := range sizeHelpers {
		if fd == nil || fd.Body == nil {
			r.Unresolved("size/helper", "ads.authenticatedMap.addSize", "declaration of the size helper not found")
			continue
		}
		ok := false
		params := paramObjs(info, fd)
		ast.Inspect(fd.Body, func(n ast.Node) bool {
			c, isCall := n.(*ast.CallExpr)
			if !isCall || !fieldCall("size", "Set")(c) || len(c.Args) != 1 {
				return true
			}
			var hasDelta, hasSize, plus bool
			ast.Inspect(c.Args[0], func(m ast.Node) bool {
				switch x := m.(type) {
				case *ast.Ident:
					for _, po := range params {
						if po != nil && info.Uses[x] == po {
							if b, isB := po.Type().Underlying().(*types.Basic); isB && b.Info()&types.IsInteger != 0 {
								hasDelta = true
							}
						}
					}
					if dc := definingCall(info, fd.Body, x); dc != nil && fieldCall("size", "Get")(dc) {
						hasSize = true
					}
				case *ast.BinaryExpr:
					if x.Op == token.ADD {
						plus = true
					}
				}
				return true
			})
			ok = hasDelta && hasSize && plus
			return true
		})
		if ok {
			r.Pass("size/helper", "ads.authenticatedMap.addSize", p.posStr(fd.Pos()), "stores size.Get() + delta")
		} else {
			r.Fail("size/helper", "ads.authenticatedMap.addSize", p.posStr(fd.Pos()), "the size helper must store the current size plus the delta")
		}
	}
	// (4) commit / reopen
	if f := p.CFGOf(pkg, "authenticatedMap", "Commit"); f == nil {
		r.Unresolved("commit/root-and-trie", "ads.authenticatedMap.Commit", "method not found")
	} else {
		key := "ads.authenticatedMap.Commit"
		rootSets := f.Calls(func(c *ast.CallExpr) bool {
			return fieldCall("root", "Set")(c) && len(c.Args) == 1 && strings.Contains(exprKey(c.Args[0]), ".tree.Root()")
		})
		isTreeCommit := func(n ast.Node) bool { c, ok := n.(*ast.CallExpr); return ok && treeCall("Commit")(c) }
		if len(rootSets) != 1 {
			r.Fail("commit/root-and-trie", key, f.P.posStr(f.Body.Pos()), "Commit must store tree.Root() under the root key")
		} else {
			succ, _ := f.ErrEdges(rootSets[0])
			bad := len(succ) == 0
			for _, e := range succ {
				if _, found := f.reach(Point{e.From.Succs[e.Succ], 0}, &searchOpts{AvoidNode: isTreeCommit}, func(pt Point, atExit bool) bool { return atExit }); found {
					bad = true
				}
			}
			pt, _ := f.PointOf(rootSets[0])
			if _, found := f.reach(f.entry(), &searchOpts{AvoidNode: func(n ast.Node) bool { return n == ast.Node(rootSets[0]) }}, func(pt Point, atExit bool) bool {
				if atExit {
					return false
				}
				rs, ok := f.nodeAt(pt).(*ast.ReturnStmt)
				return ok && len(rs.Results) == 1 && (isNil(info, rs.Results[0]) || isTreeCommit(ast.Unparen(rs.Results[0])))
			}); found {
				bad = true
			}
			if bad {
				r.Fail("commit/root-and-trie", key, f.PosOf(pt), "a success path of Commit skips storing the root or committing the trie nodes: a reopened instance sees a different root/contents")
			} else {
				r.Pass("commit/root-and-trie", key, f.PosOf(pt), "root.Set(tree.Root()) succeeds before tree.Commit() on every success path")
			}
		}
	}
	checkAdsConstructor(r, p)
	// WasRestoredFromStorage
	if fd := p.FuncDecl(pkg, "authenticatedMap", "WasRestoredFromStorage"); fd == nil {
		r.Unresolved("reopen/was-restored", "ads.authenticatedMap.WasRestoredFromStorage", "method not found")
	} else {
		ok := false
		ast.Inspect(fd.Body, func(n ast.Node) bool {
			rs, isRet := n.(*ast.ReturnStmt)
			if !isRet || len(rs.Results) != 1 {
				return true
			}
			u, isU := ast.Unparen(rs.Results[0]).(*ast.UnaryExpr)
			if !isU || u.Op != token.NOT {
				return true
			}
			c, isC := ast.Unparen(u.X).(*ast.CallExpr)
			if !isC || len(c.Args) != 2 || !strings.HasSuffix(exprKey(c.Fun), ".Is") || !strings.HasSuffix(exprKey(c.Args[1]), "ErrKeyNotFound") {
				return true
			}
			if dc := definingCall(info, fd.Body, c.Args[0]); dc != nil && fieldCall("root", "Get")(dc) {
				ok = true
			}
			return true
		})
		if ok {
			r.Pass("reopen/was-restored", "ads.authenticatedMap.WasRestoredFromStorage", p.posStr(fd.Pos()), "true iff reading the root key does not report ErrKeyNotFound")
		} else {
			r.Fail("reopen/was-restored", "ads.authenticatedMap.WasRestoredFromStorage", p.posStr(fd.Pos()), "must be !Is(root.Get() error, ErrKeyNotFound)")
		}
	}
	// (6) adapter
	checkForwarding(r, p, "fwd/delegates", fwdOpts{Pkg: pkg, Type: "mapStoreAdapter", Field: "underlying", Skip: map[string]string{"Len": "counts via IterateKeys"}, Rename: map[string]string{"ClearAll": "Clear"}, MinMethods: 5})
	// set wrapper
	if fd := p.FuncDecl(pkg, "authenticatedSet", "Add"); fd == nil {
		r.Unresolved("fwd/delegates", "ads.authenticatedSet.Add", "method not found")
	} else {
		ok := false
		params := paramObjs(info, fd)
		ast.Inspect(fd.Body, func(n ast.Node) bool {
			if rs, isRet := n.(*ast.ReturnStmt); isRet && len(rs.Results) == 1 {
				if c, isC := ast.Unparen(rs.Results[0]).(*ast.CallExpr); isC && selectorCall(info, c, "", "Set") && len(c.Args) == 2 && len(params) == 1 && objOfIdent(info, c.Args[0]) == params[0] {
					ok = true
				}
			}
			return true
		})
		if ok {
			r.Pass("fwd/delegates", "ads.authenticatedSet.Add", p.posStr(fd.Pos()), "Add(key) = Set(key, void)")
		} else {
			r.Fail("fwd/delegates", "ads.authenticatedSet.Add", p.posStr(fd.Pos()), "Add must return Set(key, void)")
		}
	}
}

func pathExists(f *FuncCFG, from, to Point) bool {
	_, found := f.reach(from, nil, func(pt Point, atExit bool) bool { return !atExit && f.At(pt, to) })
	return found
}

// checkStreamStopAndReport: the consumer handed to IterateKeys records every error in a variable
// of Stream, stops the iteration, and Stream returns it (the rule of C06, see there).
func checkStreamStopAndReport(r *Reporter, p *Prog, pkg string, fd *ast.FuncDecl) {
	info := p.Pkg(pkg).TypesInfo
	checkIterateStopAndReport(r, p, pkg, fd, funcKey(pkg, fd), stopReportOpts{
		IsIteration: func(c *ast.CallExpr) bool {
			se, ok := ast.Unparen(c.Fun).(*ast.SelectorExpr)
			return ok && se.Sel.Name == "IterateKeys"
		},
		Skip: func(c *ast.CallExpr) bool { return isErrorConstructor(calleeShort(info, c)) },
		Min:  3,
	})
}

// checkAdsConstructor: import-from-root wiring and prefix layout.
func checkAdsConstructor(r *Reporter, p *Prog) {
	const pkg = "ads"
	info := p.Pkg(pkg).TypesInfo
	fd := p.FuncDecl(pkg, "", "newAuthenticatedMap")
	if fd == nil {
		r.Unresolved("reopen/constructor", "ads.newAuthenticatedMap", "function not found")
		return
	}
	f := newFuncCFG(p, info, fd.Body, "ads.newAuthenticatedMap")
	isCallTo := func(name string) func(*ast.CallExpr) bool {
		return func(c *ast.CallExpr) bool { return strings.HasSuffix(exprKey(c.Fun), name) }
	}
	imports := f.Calls(isCallTo("smt.ImportSparseMerkleTrie"))
	news := f.Calls(isCallTo("smt.NewSparseMerkleTrie"))
	rootGets := f.Calls(func(c *ast.CallExpr) bool {
		se, ok := ast.Unparen(c.Fun).(*ast.SelectorExpr)
		if !ok || se.Sel.Name != "Get" || len(c.Args) != 0 {
			return false
		}
		if fieldSel(info, se.X, "root") {
			return true
		}
		// the root value handed to a helper: follow the helper's parameter to the caller's argument
		cpt, okp := f.PointOf(c)
		if !okp {
			return false
		}
		x, xpt := se.X, cpt
		for i := 0; i < 4; i++ {
			if fieldSel(info, x, "root") {
				return true
			}
			po := objOfIdent(info, x)
			if po == nil {
				break
			}
			arg, apt, ok := f.paramArg(po, xpt)
			if !ok {
				break
			}
			x, xpt = arg, apt
		}
		return strings.HasSuffix(f.KeyAt(se.X, cpt), ".root")
	})
	key := "ads.newAuthenticatedMap"
	if len(imports) != 1 || len(news) != 1 || len(rootGets) != 1 {
		r.Fail("reopen/constructor", key, p.posStr(fd.Pos()), fmt.Sprintf("expected one Import, one New and one root.Get, found %d/%d/%d", len(imports), len(news), len(rootGets)))
	} else {
		ipt, _ := f.PointOf(imports[0])
		npt, _ := f.PointOf(news[0])
		succ, fail := f.ErrEdges(rootGets[0])
		_, okI := f.OnlyThroughEdges(ipt, succ)
		_, okN := f.OnlyThroughEdges(npt, fail)
		// third argument of Import derives from the root read
		okRoot := false
		if len(imports[0].Args) >= 3 {
			ast.Inspect(imports[0].Args[2], func(n ast.Node) bool {
				if id, ok := n.(*ast.Ident); ok {
					if as, found := f.lastAssignBefore(ipt.B, ipt.I, info.Uses[id]); found && len(as.Rhs) == 1 && ast.Unparen(as.Rhs[0]) == ast.Expr(rootGets[0]) {
						okRoot = true
					}
					if re, _ := f.Resolve(id, ipt); ast.Unparen(re) == ast.Expr(rootGets[0]) {
						okRoot = true
					}
					if dc := definingCall(info, fd.Body, id); dc == rootGets[0] {
						okRoot = true
					}
				}
				return true
			})
		}
		sameStore := len(imports[0].Args) > 0 && len(news[0].Args) > 0 && f.KeyAt(imports[0].Args[0], ipt) == f.KeyAt(news[0].Args[0], npt)
		hasher := func(c *ast.CallExpr) bool {
			for _, a := range c.Args {
				if ce, ok := ast.Unparen(a).(*ast.CallExpr); ok && strings.HasSuffix(exprKey(ce.Fun), "WithValueHasher") && len(ce.Args) == 1 && isNil(info, ce.Args[0]) {
					return true
				}
			}
			return false
		}
		// "default, then override": the fresh trie is built first and replaced by the imported one on the
		// success edge - both calls assign the same variable, so on the success path the fresh one is dead
		if okI && !okN {
			target := func(c *ast.CallExpr) types.Object {
				var o types.Object
				for _, b := range f.G.Blocks {
					for _, nd := range b.Nodes {
						if as, isAs := nd.(*ast.AssignStmt); isAs && len(as.Lhs) == 1 && len(as.Rhs) == 1 && ast.Unparen(as.Rhs[0]) == ast.Expr(c) {
							o = objOfIdent(info, as.Lhs[0])
						}
					}
				}
				return o
			}
			if tn, ti := target(news[0]), target(imports[0]); tn != nil && tn == ti {
				if _, before := f.reach(Point{npt.B, npt.I + 1}, nil, func(q Point, atExit bool) bool { return !atExit && f.At(q, ipt) }); before {
					okN = true
				}
			}
		}
		// (reported on its own: the two constructors must agree on the value hasher whatever the shape)
		if !hasher(imports[0]) || !hasher(news[0]) {
			r.Fail("reopen/constructor", key+" value hasher", f.PosOf(ipt), "both trie constructors must disable the value hasher identically (WithValueHasher(nil)); otherwise a reopened trie computes different roots")
		}
		switch {
		case !okI || !okN:
			r.Fail("reopen/constructor", key, f.PosOf(ipt), "the trie must be imported exactly when reading the stored root succeeded, and created fresh otherwise")
		case !okRoot:
			r.Fail("reopen/constructor", key, f.PosOf(ipt), "the imported root is not the value read from the root key")
		case !sameStore:
			r.Fail("reopen/constructor", key, f.PosOf(ipt), "import and fresh construction use different node stores")
		case !hasher(imports[0]) || !hasher(news[0]):
			r.Fail("reopen/constructor", key, f.PosOf(ipt), "both trie constructors must disable the value hasher identically (WithValueHasher(nil)); otherwise a reopened trie computes different roots")
		default:
			r.Pass("reopen/constructor", key, f.PosOf(ipt), "import iff stored root readable; same store; value hasher disabled on both")
		}
	}
	// prefixes
	vals := map[string]string{}
	ast.Inspect(fd.Body, func(n ast.Node) bool {
		cl, ok := n.(*ast.CompositeLit)
		if !ok || len(cl.Elts) != 1 || !isByteSlice(info.TypeOf(cl)) {
			return true
		}
		if tv, ok := info.Types[cl.Elts[0]]; ok && tv.Value != nil && tv.Value.Kind() == constant.Int {
			vals[exprKey(cl.Elts[0])] = tv.Value.ExactString()
		}
		return true
	})
	distinct := map[string]bool{}
	for _, v := range vals {
		distinct[v] = true
	}
	if len(vals) == 4 && len(distinct) == 4 {
		r.Pass("layout/prefixes-distinct", key, p.posStr(fd.Pos()), fmt.Sprintf("four storage prefixes with pairwise distinct values %v", vals))
	} else {
		r.Fail("layout/prefixes-distinct", key, p.posStr(fd.Pos()), fmt.Sprintf("raw keys, trie nodes, root and size must live under four pairwise distinct prefixes; found %v", vals))
	}
	// which prefix goes where
	use := map[string]string{}
	ast.Inspect(fd.Body, func(n ast.Node) bool {
		kv, ok := n.(*ast.KeyValueExpr)
		if ok {
			ast.Inspect(kv.Value, func(m ast.Node) bool {
				if cl, ok := m.(*ast.CompositeLit); ok && len(cl.Elts) == 1 && isByteSlice(info.TypeOf(cl)) {
					use[exprKey(kv.Key)] = exprKey(cl.Elts[0])
				}
				return true
			})
		}
		return true
	})
	if use["rawKeysStore"] != "" && use["size"] != "" && use["root"] != "" && len(map[string]bool{use["rawKeysStore"]: true, use["size"]: true, use["root"]: true}) == 3 {
		r.Pass("layout/prefixes-distinct", key+" fields", p.posStr(fd.Pos()), fmt.Sprintf("rawKeysStore/size/root use %s/%s/%s", use["rawKeysStore"], use["size"], use["root"]))
	} else {
		r.Fail("layout/prefixes-distinct", key+" fields", p.posStr(fd.Pos()), fmt.Sprintf("rawKeysStore/size/root must use three different prefixes, found %v", use))
	}
}

// checkPresencePredicate: "the key is present" has ONE meaning in authenticatedMap: the trie
// returns a non-nil value (has() decides size accounting with it; sets store empty values).
// Every other decision on a tree.Get result must use the same predicate: comparing its length
// with zero instead treats keys with an empty value as absent in one method and present in the
// others (Size/Has/Delete/Stream/Root disagree with Get).
func checkPresencePredicate(r *Reporter, p *Prog, pkg string, info *types.Info, methods []*ast.FuncDecl) {
	nGets, nNil := 0, 0
	partIs := adsPartIs(p, pkg, info)
	isTreeGet := func(cl *ast.CallExpr) bool {
		se, ok := ast.Unparen(cl.Fun).(*ast.SelectorExpr)
		return ok && se.Sel.Name == "Get" && partIs(se.X, "tree")
	}
	for _, fd := range methods {
		if fd.Body == nil {
			continue
		}
		fkey := funcKey(pkg, fd)
		// the method with its unexported helpers in place: the decision on the looked-up bytes may
		// live in a helper the bytes are handed to
		f := newFuncCFG(p, info, fd.Body, fkey)
		// the lookups this method performs itself or through a lookup helper spliced into it; a lookup in
		// a helper is judged in the callers of the helper (there the decision is made), so a helper that
		// is spliced wherever it is called is not judged on its own
		if !fd.Name.IsExported() && splicedEverywhere(p, pkg, fd) {
			continue
		}
		var getSites []*ast.AssignStmt
		for _, gb := range f.G.Blocks {
			if !gb.Live {
				continue
			}
			for _, gn := range gb.Nodes {
				if as, ok := gn.(*ast.AssignStmt); ok && len(as.Rhs) == 1 && len(as.Lhs) == 2 {
					if cl, ok := ast.Unparen(as.Rhs[0]).(*ast.CallExpr); ok && isTreeGet(cl) {
						dup := false
						for _, g := range getSites {
							if g == as {
								dup = true
							}
						}
						if !dup {
							getSites = append(getSites, as)
						}
					}
				}
			}
		}
		for _, nd := range getSites {
			as := nd
			cl := ast.Unparen(as.Rhs[0]).(*ast.CallExpr)
			v := objOfIdent(info, as.Lhs[0])
			if v == nil {
				continue
			}
			nGets++
			key := "presence test on the result of tree.Get in " + fkey
			nilTests, lenTests := 0, []string{}
			var lossy []string
			seenTest := map[ast.Node]bool{}
			for _, b := range f.G.Blocks {
				if !b.Live {
					continue
				}
				for bi, bn := range b.Nodes {
					pt := Point{b, bi}
					inspectNoLit(bn, func(m ast.Node) bool {
						be, ok := m.(*ast.BinaryExpr)
						if !ok || seenTest[be] {
							return true
						}
						// the looked-up bytes themselves, or a copy that is nil exactly when they are
						// (bytes.Clone / slices.Clone keep nil apart from empty; append([]byte(nil), b...)
						// does not, and is deliberately not on this list)
						sameNil := func(e ast.Expr) bool {
							if f.IsVar(e, pt, v) {
								return true
							}
							if t := info.TypeOf(e); t == nil || !types.Identical(t.Underlying(), v.Type().Underlying()) {
								return false // not the bytes (an error, a decoded value, ...)
							}
							os := f.Origins(e, pt)
							n := 0
							for _, o := range os {
								if isNil(info, o.E) {
									continue
								}
								cl, isCall := ast.Unparen(o.E).(*ast.CallExpr)
								if !isCall || len(cl.Args) != 1 || (rawKey(cl.Fun) != "bytes.Clone" && rawKey(cl.Fun) != "slices.Clone") {
									if oid, isId := ast.Unparen(o.E).(*ast.Ident); isId && (objOfIdent(info, oid) == v || f.IsVar(oid, o.At, v)) {
										n++
										continue
									}
									// derived from the looked-up bytes some other way (append([]byte(nil), b...),
									// a re-slice, ...): nil-ness is not preserved for the empty value
									derived := false
									ast.Inspect(o.E, func(dn ast.Node) bool {
										if did, isId := dn.(*ast.Ident); isId && (objOfIdent(info, did) == v || f.IsVar(did, o.At, v)) {
											derived = true
										}
										return !derived
									})
									if derived {
										lossy = append(lossy, p.posStr(o.E.Pos())+" "+exprKey(o.E))
									}
									return false
								}
								if !(objOfIdent(info, cl.Args[0]) == v || f.IsVar(cl.Args[0], o.At, v)) {
									return false
								}
								n++
							}
							return n > 0
						}
						for _, side := range [][2]ast.Expr{{be.X, be.Y}, {be.Y, be.X}} {
							if isNil(info, side[1]) && (be.Op == token.EQL || be.Op == token.NEQ) && sameNil(side[0]) {
								nilTests++
								seenTest[be] = true
							}
							if c2, ok := ast.Unparen(side[0]).(*ast.CallExpr); ok && exprKey(c2.Fun) == "len" && len(c2.Args) == 1 && f.IsVar(c2.Args[0], pt, v) {
								if cv, isConst := constInt(info, side[1]); isConst && cv <= 1 {
									lenTests = append(lenTests, p.posStr(be.Pos())+" "+exprKey(be))
									seenTest[be] = true
								}
							}
						}
						return true
					})
				}
			}
			switch {
			case len(lossy) > 0:
				r.Fail("presence/one-predicate", key, p.posStr(cl.Pos()), "presence is decided by a nil test on a copy of the looked-up bytes that does not keep nil apart from empty ("+lossy[0]+"): a key holding an empty value is reported absent here but counted, streamed and deletable everywhere else", lossy...)
			case len(lenTests) > 0:
				r.Fail("presence/one-predicate", key, p.posStr(cl.Pos()), "presence is decided by the length of the stored value ("+lenTests[0]+") instead of value != nil as in has(): a key holding an empty value is reported absent here but counted, streamed and deletable everywhere else", lenTests...)
			case nilTests == 0:
				r.Pass("presence/one-predicate", key, p.posStr(cl.Pos()), "no presence decision here (the key comes from the raw-key store)")
			default:
				nNil++
				r.Pass("presence/one-predicate", key, p.posStr(cl.Pos()), "absence decided by == nil / != nil, the predicate of has()")
			}
		}
	}
	if nGets < 2 || nNil < 2 {
		r.Fail("presence/one-predicate", pkg+".authenticatedMap", "-", fmt.Sprintf("expected tree.Get with a nil test in has() and Get(), found %d sites, %d nil-tested", nGets, nNil))
	}
}

// checkStoredValueNonNil: absence is "tree.Get returned nil" (presence/one-predicate), so the
// bytes handed to tree.Update must never be nil: an encoder that returns a nil slice for an
// empty value would otherwise store a leaf that has()/Get() report as absent while Size and
// Stream count it. On every path from the encoder call to tree.Update the value is either
// tested against nil and replaced on the nil edge, or the nil edge does not reach the update.
func checkStoredValueNonNil(r *Reporter, p *Prog, pkg string, info *types.Info) {
	key := pkg + ".authenticatedMap.Set"
	fd := p.FuncDecl(pkg, "authenticatedMap", "Set")
	if fd == nil {
		r.Unresolved("presence/stored-value-non-nil", key, "method not found")
		return
	}
	f := newFuncCFG(p, info, fd.Body, key)
	updates := f.Find(func(n ast.Node) bool {
		cl, ok := n.(*ast.CallExpr)
		return ok && strings.HasSuffix(exprKey(cl.Fun), ".tree.Update") && len(cl.Args) == 2
	})
	if len(updates) != 1 {
		r.Fail("presence/stored-value-non-nil", key, p.posStr(fd.Pos()), fmt.Sprintf("expected one tree.Update, found %d", len(updates)))
		return
	}
	// the location that holds the encoded value: a variable, or a field of a record variable - also
	// the record of an encoding helper spliced in, whose named result is what the caller's record is
	// copied from
	type loc struct {
		obj   types.Object
		field string
	}
	var locs []loc
	var valArg ast.Expr
	inspectNoLit(f.nodeAt(updates[0]), func(n ast.Node) bool {
		if cl, ok := n.(*ast.CallExpr); ok && strings.HasSuffix(exprKey(cl.Fun), ".tree.Update") && len(cl.Args) == 2 {
			valArg = cl.Args[1]
		}
		return true
	})
	if o := objOfIdent(info, valArg); o != nil {
		locs = append(locs, loc{o, ""})
		// the update sits in an expanded helper and the value is its parameter: the caller's variable
		{
			if arg, _, okA := f.paramArg(o, updates[0]); okA {
				if ao := objOfIdent(info, arg); ao != nil {
					locs = append(locs, loc{ao, ""})
				}
			}
		}
	} else if se, ok := ast.Unparen(valArg).(*ast.SelectorExpr); ok {
		if o := objOfIdent(info, se.X); o != nil {
			if sel := info.Selections[se]; sel != nil && sel.Kind() == types.FieldVal {
				locs = append(locs, loc{o, se.Sel.Name})
				// where the record comes from: the results of a spliced helper
				if defs, fromEntry := f.ReachingDefs(updates[0], o); len(defs) == 1 && !fromEntry {
					if as, isAs := f.nodeAt(defs[0].At).(*ast.AssignStmt); isAs && len(as.Rhs) == 1 {
						if c, isCall := ast.Unparen(as.Rhs[0]).(*ast.CallExpr); isCall {
							if reg := f.regionByCall(c); reg != nil {
								li := -1
								for k, l := range as.Lhs {
									if objOfIdent(info, l) == o {
										li = k
									}
								}
								for _, rt := range reg.rets {
									if li >= 0 && li < len(rt.results) {
										if ho := objOfIdent(info, rt.results[li]); ho != nil {
											locs = append(locs, loc{ho, se.Sel.Name})
										}
									}
								}
							}
						}
					}
				}
			}
		}
	}
	isLoc := func(e ast.Expr) bool {
		e = ast.Unparen(e)
		for _, l := range locs {
			if l.field == "" {
				if objOfIdent(info, e) == l.obj {
					return true
				}
			} else if se, ok := e.(*ast.SelectorExpr); ok && se.Sel.Name == l.field && objOfIdent(info, se.X) == l.obj {
				return true
			}
		}
		return false
	}
	if len(locs) == 0 {
		r.Fail("presence/stored-value-non-nil", key, f.PosOf(updates[0]), "the value handed to tree.Update is neither a variable nor a field of a record variable: cannot establish that it is non-nil")
		return
	}
	vName := exprKey(valArg)
	var nilEdges, nonNilEdges []Edge
	f.forEachEdgeFact(func(e Edge, b *cfg.Block, ft fact) {
		x, nonNilOnTrue, ok := nilTest(info, ft.Atom)
		if !ok || !isLoc(x) {
			return
		}
		if nonNilOnTrue == ft.Pol {
			nonNilEdges = append(nonNilEdges, e)
		} else {
			nilEdges = append(nilEdges, e)
		}
	})
	if len(nilEdges) == 0 {
		r.Fail("presence/stored-value-non-nil", key, f.PosOf(updates[0]), "the encoded value "+vName+" reaches tree.Update without ever being compared with nil: a nil-encoded empty value is stored as a leaf that has() and Get() report as absent (Size drifts, Stream still lists the key)")
		return
	}
	reassigns := func(n ast.Node) bool {
		as, ok := n.(*ast.AssignStmt)
		if !ok {
			return false
		}
		for i, l := range as.Lhs {
			if isLoc(l) && i < len(as.Rhs) && !isNil(info, as.Rhs[i]) {
				return true
			}
		}
		return false
	}
	for _, e := range nilEdges {
		if w, found := f.reach(Point{e.From.Succs[e.Succ], 0}, &searchOpts{AvoidNode: reassigns}, func(pt Point, atExit bool) bool { return !atExit && f.At(pt, updates[0]) }); found {
			r.Fail("presence/stored-value-non-nil", key, f.PosOf(updates[0]), "tree.Update is reachable with "+vName+" known to be nil: the stored leaf is indistinguishable from an absent key", w...)
			return
		}
	}
	// and the test is on every path to the update
	if w, only := f.OnlyThroughEdges(updates[0], append(nilEdges, nonNilEdges...)); !only {
		r.Fail("presence/stored-value-non-nil", key, f.PosOf(updates[0]), "a path reaches tree.Update without passing the nil test of "+vName, w...)
		return
	}
	r.Pass("presence/stored-value-non-nil", key, f.PosOf(updates[0]), "the value is nil-tested on every path and replaced by a non-nil slice on the nil edge before tree.Update")
}

// adsPartIs: is e the named field of authenticatedMap, or (for the fields whose type no other field
// shares) a value of that field's type - the field handed to a helper as a parameter?
func adsPartIs(p *Prog, pkg string, info *types.Info) func(e ast.Expr, field string) bool {
	_, st := p.NamedStruct(pkg, "authenticatedMap")
	typeOfField := map[string]string{}
	count := map[string]int{}
	if st != nil {
		for i := 0; i < st.NumFields(); i++ {
			tn := types.TypeString(st.Field(i).Type(), nil)
			typeOfField[st.Field(i).Name()] = tn
			count[tn]++
		}
	}
	return func(e ast.Expr, field string) bool {
		if fieldSel(info, e, field) {
			return true
		}
		tn, ok := typeOfField[field]
		if !ok || count[tn] != 1 {
			return false
		}
		if _, isSel := ast.Unparen(e).(*ast.SelectorExpr); isSel {
			return false // another field
		}
		t := info.TypeOf(e)
		return t != nil && types.TypeString(t, nil) == tn
	}
}

// constArgs: the integer constants among the arguments of a call, as decimal strings.
func constArgs(info *types.Info, c *ast.CallExpr) []string {
	var out []string
	for _, a := range c.Args {
		if tv, ok := info.Types[a]; ok && tv.Value != nil {
			out = append(out, tv.Value.String())
		}
	}
	return out
}
