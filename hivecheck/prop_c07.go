package main

import (
	"fmt"
	"go/ast"
	"go/token"
	"go/types"
	"strings"
)

func init() {
	register(&property{
		ID:  "C07",
		Run: runC07,
		Meta: propMeta{
			Explanation: "Static clauses of kvstore.Sequence on all CFG paths: (1) the in-memory lease bound (reserved) is raised only on the success edge of the store write of the same value (reserve-before-hand-out); (2) Next hands a number out only on the edge next<reserved or after a successful update, and increments next on every such path; (3) every store write of the key is either loaded-mark+interval or a write-back of next guarded by an active lease (next<reserved / reserved!=0), so the durable mark never moves below a number already handed out; (4) the counter restarts from 0 only on ErrKeyNotFound, other read errors are returned; (5) writer and reader use the same byte order; (6) next/reserved only under the mutex, update is caller-holds; (7) all store errors are checked and propagated. Necessary conditions for non-reuse across every crash point and restart; durability of the store and counter overflow are not decided.",
			NotDecided:  "arithmetic overflow of the counter; durability/atomicity of the backing store's Set",
			Assumptions: []string{"the backing store's Set is durable when it returns nil"},
		},
	})
}

func runC07(c *Ctx) {
	p := c.Load("kvstore")
	if p == nil {
		return
	}
	r := c.R
	const pkg = "kvstore"
	info := p.Pkg(pkg).TypesInfo
	// the reservation is durable when store.Set returned nil - on a write-buffering store that is what
	// the flushing wrapper provides, for every view it hands out
	checkFlushingWrapper(r, p)
	// ... and that the mark is found again under the same key: the map store's views keep their realm
	// discipline (what is written under realm+key is read under realm+key, sibling realms are disjoint)
	checkRealmDiscipline(r, p)
	checkExtendedRealm(r, p, "kvstore/mapdb", "mapDB")
	methods := p.Methods(pkg, "Sequence")
	if p.FuncDecl(pkg, "Sequence", "Next") == nil || p.FuncDecl(pkg, "Sequence", "Release") == nil {
		r.Unresolved("seq/anchors", "kvstore.Sequence", "expected the operations Next and Release")
		return
	}
	// (6) locks
	checkGuards(r, p, "lock/guarded-by", []GuardRow{{Pkg: pkg, Type: "Sequence", Mutex: "Mutex", Fields: []string{"next", "reserved"}}})
	checkLockBalance(r, p, "lock/balance", []string{pkg}, nil, func(k string) bool { return hasPrefixAny(k, "kvstore.Sequence.") })
	// Next and Release are one atomic step each: the read of next/reserved, the store write and the
	// lease update happen in one critical section (a snapshot written back after the unlock rolls
	// the durable mark behind numbers handed out meanwhile)
	checkAtomicOperations(r, p, "atomic/one-section-per-operation", pkg, "Sequence", "Mutex")
	// (7) errors
	checkErrChecked(r, p, "err/checked", errScope{Pkg: pkg, Funcs: methods})
	for _, fd := range methods {
		checkFailureReturnsNonNil(r, p, pkg, fd, nil)
	}

	isStoreSet := func(c *ast.CallExpr) bool {
		se, ok := ast.Unparen(c.Fun).(*ast.SelectorExpr)
		return ok && se.Sel.Name == "Set" && fieldSel(info, se.X, "store")
	}
	isStoreGet := func(c *ast.CallExpr) bool {
		se, ok := ast.Unparen(c.Fun).(*ast.SelectorExpr)
		return ok && se.Sel.Name == "Get" && fieldSel(info, se.X, "store")
	}
	assignsField := func(field string) func(ast.Node) bool {
		return func(n ast.Node) bool {
			switch x := n.(type) {
			case *ast.AssignStmt:
				for _, l := range x.Lhs {
					if fieldSel(info, l, field) {
						return true
					}
				}
			case *ast.IncDecStmt:
				return fieldSel(info, x.X, field)
			}
			return false
		}
	}
	totalSets := 0
	var encOrders, decOrders []string
	// byte orders used anywhere in the type's methods
	for _, fd := range methods {
		ast.Inspect(fd.Body, func(n ast.Node) bool {
			if c, ok := n.(*ast.CallExpr); ok {
				switch role, order, _ := uint64Codec(info, c); role {
				case "enc":
					encOrders = append(encOrders, order)
				case "dec":
					decOrders = append(decOrders, order)
				}
			}
			return true
		})
	}
	// The path rules are evaluated on the exported operations with their unexported helpers
	// expanded in place, so that it does not matter whether the reservation lives in update(),
	// in a further helper, or directly in Next.
	for _, fd := range methods {
		if !fd.Name.IsExported() {
			continue
		}
		fkey := funcKey(pkg, fd)
		f := newFuncCFG(p, info, fd.Body, fkey)
		sets := f.Calls(isStoreSet)
		totalSets += len(sets)
		setPt := map[*ast.CallExpr]Point{}
		for _, sc := range sets {
			setPt[sc], _ = f.PointOf(sc)
		}
		// the value encoded into a store write: the PutUint64 that reaches it
		encoded := func(sc *ast.CallExpr) (ast.Expr, Point, bool) {
			// the written bytes are the result of an appending encoder (on every path)
			if len(sc.Args) == 2 {
				var val ast.Expr
				var vpt Point
				n, all := 0, true
				for _, o := range f.Origins(sc.Args[1], setPt[sc]) {
					n++
					c, isCall := ast.Unparen(o.E).(*ast.CallExpr)
					if !isCall {
						all = false
						continue
					}
					if role, _, v := uint64Codec(info, c); role == "enc" && rawKey(ast.Unparen(c.Fun).(*ast.SelectorExpr).Sel) == "AppendUint64" && isNil(info, c.Args[0]) {
						if val != nil && f.KeyAt(val, vpt) != f.KeyAt(v, o.At) {
							all = false
						}
						val, vpt = v, o.At
					} else {
						all = false
					}
				}
				if n > 0 && all && val != nil {
					return val, vpt, true
				}
			}
			isPut := func(n ast.Node) bool {
				c, ok := n.(*ast.CallExpr)
				if !ok {
					return false
				}
				role, _, _ := uint64Codec(info, c)
				return role == "enc"
			}
			var found []Point
			for _, pp := range f.Find(isPut) {
				if _, ok := f.reach(Point{pp.B, pp.I + 1}, &searchOpts{AvoidNode: isPut}, func(q Point, atExit bool) bool { return !atExit && f.At(q, setPt[sc]) }); ok || f.At(pp, setPt[sc]) {
					found = append(found, pp)
				}
			}
			if len(found) != 1 {
				return nil, Point{}, false
			}
			var arg ast.Expr
			inspectNoLit(f.nodeAt(found[0]), func(n ast.Node) bool {
				if isPut(n) {
					arg = n.(*ast.CallExpr).Args[1]
				}
				return true
			})
			return arg, found[0], arg != nil
		}
		successEdges := func(sc *ast.CallExpr) []Edge {
			s, _ := f.ErrEdgesDeep(sc)
			return s
		}
		// (1) reserved raised only after the store write of the same value succeeded
		for _, w := range f.Find(assignsField("reserved")) {
			as, ok := f.nodeAt(w).(*ast.AssignStmt)
			key := "reserved write in " + fkey
			if !ok || len(as.Rhs) != 1 {
				r.Fail("seq/reserve-before-handout", key, f.PosOf(w), "reserved is modified other than by a plain assignment")
				continue
			}
			if len(sets) == 0 {
				r.Fail("seq/reserve-before-handout", key, f.PosOf(w), "lease bound raised in an operation that never writes the store")
				continue
			}
			var succ []Edge
			sameValue := false
			want := f.KeyAt(as.Rhs[0], w)
			for _, sc := range sets {
				succ = append(succ, successEdges(sc)...)
				if enc, ept, ok := encoded(sc); ok && f.KeyAt(enc, ept) == want {
					sameValue = true
				}
			}
			if wit, ok := f.OnlyThroughEdges(w, succ); !ok {
				r.Fail("seq/reserve-before-handout", key, f.PosOf(w), "the lease bound is raised on a path that has not passed the success edge of store.Set: numbers can be handed out that a restart will hand out again", wit...)
			} else if !sameValue {
				r.Fail("seq/reserve-before-handout", key, f.PosOf(w), "the value assigned to reserved ("+want+") is not the value encoded into the store write")
			} else {
				r.Pass("seq/reserve-before-handout", key, f.PosOf(w), "dominated by the success edge of store.Set of the same value")
			}
		}
		// (3) what is written to the store
		for _, sc := range sets {
			pt := setPt[sc]
			key := "store write in " + fkey
			if len(sets) > 1 {
				key = fmt.Sprintf("store write %s in %s", f.KeyAt(sc.Args[0], pt), fkey)
			}
			enc, ept, ok := encoded(sc)
			if !ok {
				r.Fail("seq/durable-mark-monotone", key, p.posStr(sc.Pos()), "cannot identify the value encoded into the store write (expected exactly one PutUint64(buf, v) reaching store.Set)")
				continue
			}
			k := f.KeyAt(enc, ept)
			re, rept := f.Resolve(enc, ept)
			// case A: loaded mark + interval - or, for a saturating reservation, that sum on some paths
			// and the top of the number space (math.MaxUint64: never below any earlier mark) on the others
			markPlusInterval := func(re ast.Expr, rept Point) bool {
				b, ok := ast.Unparen(re).(*ast.BinaryExpr)
				if !ok || b.Op != token.ADD {
					return false
				}
				a, c := stripRoot(f.KeyAt(b.X, rept)), stripRoot(f.KeyAt(b.Y, rept))
				base := b.X
				if a == ".interval" {
					a, c, base = c, a, b.Y
				}
				// the base is next itself, or the very value that every path stored into next before
				isNext := a == ".next"
				if !isNext && c == ".interval" {
					n := 0
					isNext = true
					for _, w := range f.Find(assignsField("next")) {
						// the loads of next that can reach the store write
						if _, reaches := f.reach(w, nil, func(q Point, atExit bool) bool { return !atExit && f.At(q, pt) }); !reaches {
							continue
						}
						n++
						was, isAs := f.nodeAt(w).(*ast.AssignStmt)
						if !isAs || was.Tok != token.ASSIGN || len(was.Rhs) != 1 || !f.SameValue(base, rept, was.Rhs[0], w) {
							isNext = false
						}
					}
					isNext = isNext && n > 0
				}
				return isNext && c == ".interval"
			}
			caseA := markPlusInterval(re, rept)
			if !caseA {
				if _, isId := ast.Unparen(re).(*ast.Ident); isId {
					if os := f.Origins(re, rept); len(os) > 1 {
						nSum := 0
						all := true
						for _, o := range os {
							switch {
							case rawKey(o.E) == "math.MaxUint64":
							case markPlusInterval(o.E, o.At):
								nSum++
							default:
								all = false
							}
						}
						caseA = all && nSum > 0
					}
				}
			}
			if caseA {
				// next must have been (re)loaded from the store or initialised on not-found on every
				// path since the lease was found exhausted
				if wit, found := f.PathFromEntryAvoiding(pt, assignsField("next"), nil); found {
					r.Fail("seq/durable-mark-monotone", key, p.posStr(sc.Pos()), "a path reaches the store write without loading the stored mark into next", wit...)
				} else {
					r.Pass("seq/durable-mark-monotone", key, p.posStr(sc.Pos()), "writes loaded mark + interval")
				}
				continue
			}
			// case B: write-back of next, needs an active lease
			if stripRoot(k) != ".next" {
				// the value came back from a helper as one of several results: every origin that can
				// reach the write on a consistent path
				if os := f.Origins(enc, ept); len(os) > 0 {
					all := true
					for _, o := range os {
						all = all && stripRoot(f.KeyAt(o.E, o.At)) == ".next"
					}
					if all {
						k = "seq.next"
					}
				}
			}
			if stripRoot(k) == ".next" {
				edges := f.RelEdgesAt(func(rel Rel) bool {
					l, rr := stripRoot(rel.L), stripRoot(rel.R)
					switch {
					case rel.Op == "<" && l == ".next" && rr == ".reserved":
						return true
					case rel.Op == "!=" && ((l == ".reserved" && rel.R == "0") || (rr == ".reserved" && rel.L == "0")):
						return true
					case rel.Op == "<" && rel.L == "0" && rr == ".reserved":
						return true
					}
					return false
				})
				if wit, ok := f.OnlyThroughEdges(pt, edges); ok {
					r.Pass("seq/durable-mark-monotone", key, p.posStr(sc.Pos()), "write-back of next guarded by an active lease")
				} else {
					r.Fail("seq/durable-mark-monotone", key, p.posStr(sc.Pos()), "next is written back as the durable mark without a guard establishing an active lease (next<reserved or reserved!=0): an object that never leased rolls the mark back to 0 and numbers are re-issued", wit...)
				}
				continue
			}
			r.Fail("seq/durable-mark-monotone", key, p.posStr(sc.Pos()), "store write of "+k+" is neither loaded-mark+interval nor a guarded write-back of next")
		}
		// (4) restart from 0 only on ErrKeyNotFound; next loaded from the value read
		gets := f.Calls(isStoreGet)
		for _, w := range f.Find(assignsField("next")) {
			as, ok := f.nodeAt(w).(*ast.AssignStmt)
			if !ok || len(gets) == 0 || as.Tok != token.ASSIGN {
				continue // seq.next++ / += in Next, handled below
			}
			key := "next load in " + fkey
			notFoundEdges := func() []Edge {
				edges, _ := f.CondEdges(func(e ast.Expr) bool {
					c, ok := e.(*ast.CallExpr)
					if !ok || len(c.Args) != 2 {
						return false
					}
					se, ok := ast.Unparen(c.Fun).(*ast.SelectorExpr)
					if !ok || se.Sel.Name != "Is" || !strings.HasSuffix(exprKey(c.Args[1]), "ErrKeyNotFound") {
						return false
					}
					cpt, okp := f.PointOf(c)
					if !okp {
						return false
					}
					src, _ := f.Resolve(c.Args[0], cpt)
					dc, isCall := ast.Unparen(src).(*ast.CallExpr)
					return isCall && isStoreGet(dc)
				})
				return edges
			}
			if isConstZero(info, as.Rhs[0]) {
				edges := notFoundEdges()
				if wit, ok := f.OnlyThroughEdges(w, edges); ok {
					r.Pass("seq/init-only-on-notfound", key+" (zero)", f.PosOf(w), "counter starts from 0 only when the store reports ErrKeyNotFound")
				} else {
					r.Fail("seq/init-only-on-notfound", key+" (zero)", f.PosOf(w), "the counter is reset to 0 on a path that did not see ErrKeyNotFound (a transient read error re-issues every number)", wit...)
				}
				continue
			}
			// loaded value: every expression the value can come from is decoded from the bytes returned
			// by store.Get, or is the constant 0 chosen behind the ErrKeyNotFound edge
			okSrc, bad := true, ""
			origins := f.Origins(as.Rhs[0], w)
			for _, o := range origins {
				if isConstZero(info, o.E) {
					if wit, ok := f.OnlyThroughEdges(o.At, notFoundEdges()); !ok {
						r.Fail("seq/init-only-on-notfound", key+" (zero)", f.PosOf(o.At), "the counter is reset to 0 on a path that did not see ErrKeyNotFound (a transient read error re-issues every number)", wit...)
					} else {
						r.Pass("seq/init-only-on-notfound", key+" (zero)", f.PosOf(o.At), "counter starts from 0 only when the store reports ErrKeyNotFound")
					}
					continue
				}
				src, spt := f.Resolve(o.E, o.At)
				good := false
				if c, ok := ast.Unparen(src).(*ast.CallExpr); ok && len(c.Args) == 1 {
					if from, _ := f.Resolve(c.Args[0], spt); from != nil {
						if dc, isCall := ast.Unparen(from).(*ast.CallExpr); isCall && isStoreGet(dc) {
							good = true
						}
					}
				}
				if !good {
					okSrc, bad = false, exprKey(src)
				}
			}
			if len(origins) == 0 {
				okSrc, bad = false, "no origin found"
			}
			if okSrc {
				r.Pass("seq/init-only-on-notfound", key+" (loaded)", f.PosOf(w), "next is decoded from the bytes read from the store")
			} else {
				r.Fail("seq/init-only-on-notfound", key+" (loaded)", f.PosOf(w), "next is set from something other than the stored mark ("+bad+")")
			}
		}
	}
	if totalSets < 2 {
		r.Fail("seq/durable-mark-monotone", "kvstore.Sequence store writes", "-", fmt.Sprintf("expected store writes in Next (reservation) and Release (write-back), found %d", totalSets))
	}
	// (5) byte order agreement
	if len(encOrders) == 0 || len(decOrders) == 0 {
		r.Fail("seq/byte-order", "kvstore.Sequence", "-", "encoder or decoder of the mark not found")
	} else {
		ok := true
		for _, o := range append(append([]string{}, encOrders...), decOrders...) {
			if o != encOrders[0] {
				ok = false
			}
		}
		if ok {
			r.Pass("seq/byte-order", "kvstore.Sequence", "-", fmt.Sprintf("%d encoders and %d decoders all use binary.%s", len(encOrders), len(decOrders), encOrders[0]))
		} else {
			r.Fail("seq/byte-order", "kvstore.Sequence", "-", fmt.Sprintf("mark written with %v but read with %v: after a restart the loaded mark is garbage", encOrders, decOrders))
		}
	}
	// (2) Next
	if f := p.CFGOf(pkg, "Sequence", "Next"); f == nil {
		r.Unresolved("seq/next-guard", "kvstore.Sequence.Next", "method not found")
	} else {
		fd := p.FuncDecl(pkg, "Sequence", "Next")
		// hand-out point: the statement reading seq.next into the returned value
		reads := f.Find(func(n ast.Node) bool {
			as, ok := n.(*ast.AssignStmt)
			return ok && len(as.Rhs) == 1 && fieldSel(info, as.Rhs[0], "next")
		})
		if len(reads) != 1 {
			r.Fail("seq/next-guard", "kvstore.Sequence.Next", p.posStr(fd.Pos()), fmt.Sprintf("expected one read of next into the result, found %d", len(reads)))
		} else {
			edges := f.RelEdgesAt(func(rel Rel) bool {
				return rel.Op == "<" && stripRoot(rel.L) == ".next" && stripRoot(rel.R) == ".reserved"
			})
			for _, sc := range f.Calls(isStoreSet) {
				s, _ := f.ErrEdgesDeep(sc)
				edges = append(edges, s...)
			}
			if wit, ok := f.OnlyThroughEdges(reads[0], edges); ok {
				r.Pass("seq/next-guard", "kvstore.Sequence.Next", f.PosOf(reads[0]), "a number is handed out only when next<reserved or after a successful reservation (store.Set)")
			} else {
				r.Fail("seq/next-guard", "kvstore.Sequence.Next", f.PosOf(reads[0]), "a number can be handed out on a path where neither next<reserved holds nor a reservation succeeded (boundary guard must be next >= reserved)", wit...)
			}
			// increment follows on every path
			if wit, found := f.PathToExitAvoiding(reads[0], func(n ast.Node) bool {
				switch x := n.(type) {
				case *ast.IncDecStmt:
					return x.Tok == token.INC && fieldSel(info, x.X, "next")
				case *ast.AssignStmt:
					return len(x.Lhs) == 1 && fieldSel(info, x.Lhs[0], "next") && (x.Tok == token.ADD_ASSIGN || x.Tok == token.ASSIGN)
				}
				return false
			}); found {
				r.Fail("seq/next-increment", "kvstore.Sequence.Next", f.PosOf(reads[0]), "next is not advanced on every path after a number was read: the same number is returned twice", wit...)
			} else {
				r.Pass("seq/next-increment", "kvstore.Sequence.Next", f.PosOf(reads[0]), "next++ follows the read on every path")
			}
			// the returned value is the one read
			// every return that can follow the hand-out point returns the value read there (whatever
			// the error result is spelled as: an early `return 0, err` cannot follow the read)
			okRet, nRet := true, 0
			goodRet := map[*ast.ReturnStmt]bool{}
			as := f.nodeAt(reads[0]).(*ast.AssignStmt)
			after := func(q Point) bool {
				_, found := f.reach(Point{reads[0].B, reads[0].I + 1}, nil, func(x Point, atExit bool) bool { return !atExit && f.At(x, q) })
				return found
			}
			for _, rpt := range f.Find(func(n ast.Node) bool { _, ok := n.(*ast.ReturnStmt); return ok }) {
				rs := f.nodeAt(rpt).(*ast.ReturnStmt)
				if !after(rpt) {
					continue
				}
				nRet++
				if len(rs.Results) == 0 {
					okRet = false
					continue
				}
				res := rs.Results[0]
				good := false
				if re, rept := f.Resolve(res, rpt); re != nil && ast.Unparen(re) == ast.Unparen(as.Rhs[0]) && f.At(rept, reads[0]) {
					good = true // resolves to the very read of next at the hand-out point (also through a hand-out helper)
				}
				if v := objOfIdent(info, res); !good && v != nil && len(as.Lhs) == 1 && v == objOfIdent(info, as.Lhs[0]) {
					defs, _ := f.ReachingDefs(rpt, v)
					good = false
					clean := true
					for _, d := range defs {
						if f.At(d.At, reads[0]) {
							good = true
						} else if after(d.At) {
							clean = false // overwritten after the read
						}
					}
					good = good && clean
				}
				goodRet[rs] = good
			}
			// a path from the hand-out point to a return that neither returns the read value nor is known
			// to report an error on that path
			if _, found := f.reach(Point{reads[0].B, reads[0].I + 1}, &searchOpts{AvoidRet: func(rs *ast.ReturnStmt, val func(ast.Expr) int8) bool {
				if goodRet[rs] {
					return true
				}
				return len(rs.Results) == 2 && val(rs.Results[1]) > 0
			}}, func(_ Point, atExit bool) bool { return atExit }); found {
				okRet = false
			}
			nGood := 0
			for _, g := range goodRet {
				if g {
					nGood++
				}
			}
			okRet = okRet && nRet > 0 && nGood > 0
			if okRet {
				r.Pass("seq/next-returns-read", "kvstore.Sequence.Next", f.PosOf(reads[0]), "the success return is the value read before the increment")
			} else {
				r.Fail("seq/next-returns-read", "kvstore.Sequence.Next", f.PosOf(reads[0]), "the success return is not the value read before the increment")
			}
		}
	}
}

// uint64Codec recognises the encoding/binary spellings of the 8-byte integer codec: the byte
// order's PutUint64(buf, v) and AppendUint64(b, v) encode v, Uint64(b) decodes. It returns the
// role, the byte order's name and, for an encoder, the encoded value.
func uint64Codec(info *types.Info, c *ast.CallExpr) (role, order string, val ast.Expr) {
	se, ok := ast.Unparen(c.Fun).(*ast.SelectorExpr)
	if !ok {
		return
	}
	fn, ok := info.Uses[se.Sel].(*types.Func)
	if !ok || fn.Pkg() == nil || fn.Pkg().Path() != "encoding/binary" {
		return
	}
	switch x := ast.Unparen(se.X).(type) {
	case *ast.SelectorExpr:
		order = x.Sel.Name
	case *ast.Ident:
		order = x.Name
	}
	switch {
	case (funcName(fn) == "PutUint64" || funcName(fn) == "AppendUint64") && len(c.Args) == 2:
		return "enc", order, c.Args[1]
	case funcName(fn) == "Uint64" && len(c.Args) == 1:
		return "dec", order, nil
	}
	return "", "", nil
}

// definingExpr returns the RHS of the unique assignment defining the local variable e.
func definingExpr(info *types.Info, body ast.Node, e ast.Expr) ast.Expr {
	v := objOfIdent(info, e)
	if v == nil {
		return nil
	}
	var rhs ast.Expr
	n := 0
	ast.Inspect(body, func(c ast.Node) bool {
		if as, ok := c.(*ast.AssignStmt); ok && len(as.Lhs) == len(as.Rhs) {
			for i, l := range as.Lhs {
				if objOfIdent(info, l) == v {
					n++
					rhs = as.Rhs[i]
				}
			}
		}
		return true
	})
	if n == 1 {
		return rhs
	}
	return nil
}
