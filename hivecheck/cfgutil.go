package main

// CFG path primitives over go/cfg (DESIGN §2 R-DOM): must-precede, must-follow,
// only-on-edge; all answered by reachability with nodes/edges removed, so every
// violation comes with a witness path.

import (
	"fmt"
	"go/ast"
	"go/constant"
	"go/token"
	"go/types"
	"sort"
	"strings"

	"golang.org/x/tools/go/cfg"
)

type FuncCFG struct {
	P    *Prog
	Info *types.Info
	Body *ast.BlockStmt
	G    *cfg.CFG
	Name string
	// helper expansion (see expand): blocks whose first node is an already expanded call, and
	// the helpers that were expanded into this graph
	expandedHead map[*cfg.Block]bool
	Expanded     []string
	regionOf     map[*cfg.Block]*region  // nil entry = the analysed function itself
	noConsist    int                     // >0: reach does plain reachability (no boolean consistency)
	factCache    map[interface{}][]fact  // EdgeFacts per (block, branch)
	regionEntry  map[*cfg.Block]*region  // first block of a spliced helper -> its region (named results are zero there)
	rescan       map[*cfg.Block]bool     // spliced blocks: only calls of bound function values are expanded
	litOnStack   map[*ast.BlockStmt]bool // literal bodies being spliced (recursion guard)
	// CallsOpaque: Resolve/KeyAt do not look into spliced helpers for the value a call returns (the
	// call itself is the value); parameters of spliced helpers are still mapped to their arguments
	CallsOpaque bool
}

// region: one expanded call of a helper; the blocks copied from the callee belong to it.
type region struct {
	call   *ast.CallExpr
	fd     *ast.FuncDecl
	callPt Point // the call node in the caller (first node of the continuation block)
	argPt  Point // the end of the block before the call (the arguments are evaluated there); used when every return of the helper was classified and the generic continuation block is dead
	parent *region
	rets   []retInfo // the helper's return sites (result expressions, evaluated at pt)
	// a method spliced at a call of a function value bound to a method value: what its receiver is
	recvX  ast.Expr
	recvPt Point
	// a binding frame only: the call of a closure factory whose literal was spliced (no blocks of its own)
	pseudo bool
}

type retInfo struct {
	results []ast.Expr
	pt      Point
}

// Point = position just before node I of block B (I == len(B.Nodes) means block end).
type Point struct {
	B *cfg.Block
	I int
}

type Edge struct {
	From *cfg.Block
	Succ int // index in From.Succs
}

func newFuncCFG(p *Prog, info *types.Info, body *ast.BlockStmt, name string) *FuncCFG {
	f := &FuncCFG{P: p, Info: info, Body: body, G: cfg.New(body, mayReturn(info)), Name: name, expandedHead: map[*cfg.Block]bool{}}
	if expandHelpers {
		f.expand(expandDepth, map[*types.Func]bool{})
	}
	return f
}

func (p *Prog) CFGOf(pkg, recv, name string) *FuncCFG {
	fd := p.FuncDecl(pkg, recv, name)
	pk := p.Pkg(pkg)
	if fd == nil || pk == nil || fd.Body == nil {
		return nil
	}
	return newFuncCFG(p, pk.TypesInfo, fd.Body, funcKey(pkg, fd))
}

// containsNode reports whether sub occurs inside n without crossing a function literal.
func inspectNoLit(n ast.Node, f func(ast.Node) bool) {
	ast.Inspect(n, func(c ast.Node) bool {
		if c == nil {
			return true
		}
		if _, ok := c.(*ast.FuncLit); ok && c != n {
			return false
		}
		return f(c)
	})
}

// Find returns the points of all block nodes that contain a sub-node matching pred.
func (f *FuncCFG) Find(pred func(ast.Node) bool) []Point {
	var out []Point
	seenNode := map[ast.Node]bool{} // expansion can place one node in several blocks: report it once
	for _, b := range f.G.Blocks {
		if !b.Live {
			continue
		}
		for i, n := range b.Nodes {
			if seenNode[n] {
				continue
			}
			hit := false
			inspectNoLit(n, func(c ast.Node) bool {
				if hit {
					return false
				}
				if pred(c) {
					hit = true
					return false
				}
				return true
			})
			if hit {
				seenNode[n] = true
				out = append(out, Point{b, i})
			}
		}
	}
	return out
}

func (f *FuncCFG) nodeAt(pt Point) ast.Node {
	if pt.I < len(pt.B.Nodes) {
		return pt.B.Nodes[pt.I]
	}
	return nil
}

func (f *FuncCFG) PosOf(pt Point) string {
	if n := f.nodeAt(pt); n != nil {
		return f.P.posStr(n.Pos())
	}
	return f.P.posStr(f.Body.Rbrace)
}

// isExitBlock: a live block without successors that does not end in a no-return call.
func (f *FuncCFG) isExitBlock(b *cfg.Block) bool {
	if len(b.Succs) != 0 || !b.Live {
		return false
	}
	if b.Kind == cfg.KindSelectAfterCase && len(b.Nodes) == 0 {
		return false // select without default: "no case ready" blocks, it is not an exit
	}
	if len(b.Nodes) > 0 {
		if es, ok := b.Nodes[len(b.Nodes)-1].(*ast.ExprStmt); ok {
			if c, ok := es.X.(*ast.CallExpr); ok && !mayReturn(f.Info)(c) {
				return false
			}
		}
	}
	return true
}

type searchOpts struct {
	AvoidNode func(n ast.Node) bool // a block node containing a match blocks the path
	AvoidEdge func(e Edge) bool
	// AvoidRet: a return statement of the function itself (not of a spliced helper) blocks the path
	// when this says so; val gives what is known on this path about a boolean or error expression
	// (1 true / non-nil, -1 false / nil, 0 unknown).
	AvoidRet func(rs *ast.ReturnStmt, val func(e ast.Expr) int8) bool
	// FromEdge: the search starts on this branch edge; what the edge establishes is known from the start
	FromEdge *Edge
	// InitFacts: what is known at the start about boolean (value) / error (true = non-nil) locals
	InitFacts map[types.Object]bool
}

func (f *FuncCFG) nodeBlocked(n ast.Node, o *searchOpts) bool {
	if o == nil || o.AvoidNode == nil {
		return false
	}
	// go/cfg keeps `a && b` / `a || b` as one condition node: what sits in a right operand is evaluated
	// only when the left operand lets it, so a match there does not block the path (some execution of
	// this node does not pass it)
	hit := false
	var visit func(c ast.Node, conditional bool)
	visit = func(c ast.Node, conditional bool) {
		if c == nil || hit {
			return
		}
		if _, isLit := c.(*ast.FuncLit); isLit && c != n {
			return
		}
		if !conditional && o.AvoidNode(c) {
			hit = true
			return
		}
		if be, ok := c.(*ast.BinaryExpr); ok && (be.Op == token.LAND || be.Op == token.LOR) {
			visit(be.X, conditional)
			visit(be.Y, true)
			return
		}
		ast.Inspect(c, func(m ast.Node) bool {
			if m == nil || m == c || hit {
				return m == c
			}
			visit(m, conditional)
			return false
		})
	}
	visit(n, false)
	return hit
}

// reach explores forward from `from` (the node at from.I is the first one executed) and
// returns, for the first target hit, the witness path (positions). target is called with
// each point reached; exits are reported as Point{b, len(b.Nodes)} of exit blocks.
func (f *FuncCFG) reach(from Point, o *searchOpts, target func(pt Point, atExit bool) bool) ([]string, bool) {
	// Paths are kept consistent on boolean locals: a path that has crossed an edge on which the
	// variable v is known true is not continued through an edge on which v is known false (and vice
	// versa) unless v was assigned in between. This removes the infeasible paths that arise when the
	// same flag is tested twice - typically once inside a spliced helper and once by its caller on the
	// value the helper returned (`found := m.lookup(k)` / `if found { ... }` ... `if !found`).
	// The same consistency is kept for error variables (known nil / known non-nil), and it follows
	// the value through the returns of spliced helpers: the result a helper handed back on this path
	// (the literal nil, a constructed error, a variable known to be non-nil, or the result of a
	// further spliced helper it returned) becomes what is known about the variable the caller
	// assigns it to. `return inner()` chains of any depth therefore keep "the store write failed"
	// apart from "the caller saw no error".
	type item struct {
		b     *cfg.Block
		i     int
		path  []string
		facts map[types.Object]bool // boolean local: its value; error local: true = non-nil
		rets  map[*region]int8      // error result of the return last taken in a region: 1 non-nil, -1 nil
		retv  map[*region]string    // all results of that return, one of + - 0 per result (for tuple assignments)
	}
	var curRetv map[*region]string
	fp := func(b *cfg.Block, facts map[types.Object]bool, rets map[*region]int8) string {
		if len(facts) == 0 && len(rets) == 0 && len(curRetv) == 0 {
			return fmt.Sprintf("%p", b)
		}
		var ks []string
		for o, v := range facts {
			ks = append(ks, fmt.Sprintf("%d:%v", o.Pos(), v))
		}
		for rg, v := range rets {
			ks = append(ks, fmt.Sprintf("%p=%d", rg, v))
		}
		for rg, v := range curRetv {
			ks = append(ks, fmt.Sprintf("%p~%s", rg, v))
		}
		sort.Strings(ks)
		return fmt.Sprintf("%p|%s", b, strings.Join(ks, ","))
	}
	// variables whose nil-ness is carried along a path: error locals and pointer locals
	isErrVar := func(e ast.Expr) types.Object {
		o := objOfIdentRaw(f.Info, e)
		if v, ok := o.(*types.Var); ok && !v.IsField() {
			if types.Identical(v.Type(), errorType) {
				return v
			}
			if _, isPtr := v.Type().Underlying().(*types.Pointer); isPtr {
				return v
			}
		}
		return nil
	}
	nilness := func(e ast.Expr, facts map[types.Object]bool, rets map[*region]int8) int8 {
		e = ast.Unparen(errorPassthrough(f.Info, e))
		if isNil(f.Info, e) {
			return -1
		}
		if c, ok := e.(*ast.CallExpr); ok {
			if rg := f.regionByCall(c); rg != nil {
				return rets[rg]
			}
			if isNonNilErrorConstructor(calleeShort(f.Info, c)) {
				return 1
			}
			if id, isId := ast.Unparen(c.Fun).(*ast.Ident); isId && id.Name == "new" {
				return 1
			}
			return 0
		}
		if u, ok := e.(*ast.UnaryExpr); ok && u.Op == token.AND {
			return 1
		}
		if o := isErrVar(e); o != nil {
			if v, has := facts[o]; has {
				if v {
					return 1
				}
				return -1
			}
		}
		if f.P != nil && f.P.sentinelError(objOfIdentRaw(f.Info, e)) {
			return 1
		}
		return 0
	}
	isBoolVar := func(e ast.Expr) types.Object {
		o := objOfIdentRaw(f.Info, e)
		if v, ok := o.(*types.Var); ok {
			if bt, isB := v.Type().Underlying().(*types.Basic); isB && bt.Info()&types.IsBoolean != 0 {
				return v
			}
		}
		return nil
	}
	// what is known on this path about a boolean expression
	var truth func(e ast.Expr, facts map[types.Object]bool, rets map[*region]int8) int8
	truth = func(e ast.Expr, facts map[types.Object]bool, rets map[*region]int8) int8 {
		e = ast.Unparen(e)
		if tv, ok := f.Info.Types[e]; ok && tv.Value != nil && tv.Value.Kind() == constant.Bool {
			if constant.BoolVal(tv.Value) {
				return 1
			}
			return -1
		}
		switch x := e.(type) {
		case *ast.Ident:
			// a literal written by a desugaring has no type record
			if ob := objOfIdentRaw(f.Info, x); ob == nil || ob.Parent() == types.Universe {
				switch x.Name {
				case "true":
					return 1
				case "false":
					return -1
				}
			}
			if o := isBoolVar(x); o != nil {
				if v, has := facts[o]; has {
					if v {
						return 1
					}
					return -1
				}
			}
		case *ast.UnaryExpr:
			if x.Op == token.NOT {
				return -truth(x.X, facts, rets)
			}
		case *ast.CallExpr:
			if rg := f.regionByCall(x); rg != nil {
				return rets[rg]
			}
		case *ast.BinaryExpr:
			switch x.Op {
			case token.LAND, token.LOR:
				a, b := truth(x.X, facts, rets), truth(x.Y, facts, rets)
				if x.Op == token.LOR {
					a, b = -a, -b
				}
				r := int8(0)
				if a < 0 || b < 0 {
					r = -1
				} else if a > 0 && b > 0 {
					r = 1
				}
				if x.Op == token.LOR {
					r = -r
				}
				return r
			case token.EQL, token.NEQ:
				var other ast.Expr
				if isNil(f.Info, x.X) {
					other = x.Y
				} else if isNil(f.Info, x.Y) {
					other = x.X
				}
				if other != nil {
					v := nilness(other, facts, rets) // 1 = non-nil
					if x.Op == token.EQL {
						v = -v
					}
					return v
				}
			}
		}
		return 0
	}
	valueOf := func(e ast.Expr, facts map[types.Object]bool, rets map[*region]int8) int8 {
		t := f.Info.TypeOf(e)
		if t == nil {
			if id, isId := ast.Unparen(e).(*ast.Ident); isId && (id.Name == "true" || id.Name == "false") {
				return truth(e, facts, rets)
			}
			return 0
		}
		if bt, isB := t.Underlying().(*types.Basic); isB && bt.Info()&types.IsBoolean != 0 {
			return truth(e, facts, rets)
		}
		if types.Identical(t, errorType) || isNil(f.Info, e) {
			return nilness(e, facts, rets)
		}
		if _, isPtr := t.Underlying().(*types.Pointer); isPtr {
			return nilness(e, facts, rets)
		}
		return 0
	}
	tracked := func(e ast.Expr) types.Object {
		if o := isErrVar(e); o != nil {
			return o
		}
		return isBoolVar(e)
	}
	seen := map[string]bool{}
	var initFacts map[types.Object]bool
	if o != nil && o.FromEdge != nil && f.noConsist == 0 {
		initFacts = map[types.Object]bool{}
		for _, ft := range f.EdgeFacts(o.FromEdge.From, o.FromEdge.Succ == 0) {
			if x, nonNilOnTrue, isTest := nilTest(f.Info, ft.Atom); isTest {
				if ob := isErrVar(x); ob != nil {
					initFacts[ob] = nonNilOnTrue == ft.Pol
				}
				continue
			}
			if ob := isBoolVar(ft.Atom); ob != nil {
				initFacts[ob] = ft.Pol
			}
		}
	}
	if o != nil && len(o.InitFacts) > 0 && f.noConsist == 0 {
		if initFacts == nil {
			initFacts = map[types.Object]bool{}
		}
		for k, v := range o.InitFacts {
			if old, has := initFacts[k]; has && old != v {
				return nil, false // the starting edge needs the opposite of what is known: no such path
			}
			initFacts[k] = v
		}
	}
	queue := []item{{from.B, from.I, nil, initFacts, nil, nil}}
	first := true
	for len(queue) > 0 {
		it := queue[0]
		queue = queue[1:]
		if !it.b.Live {
			continue
		}
		if !first || it.i == 0 {
			curRetv = it.retv
			k := fp(it.b, it.facts, it.rets)
			if seen[k] {
				continue
			}
			seen[k] = true
		}
		first = false
		blocked := false
		path := it.path
		facts := it.facts
		rets := it.rets
		retv := it.retv
		setFact := func(ob types.Object, v bool) {
			cp := map[types.Object]bool{}
			for k2, v2 := range facts {
				cp[k2] = v2
			}
			cp[ob] = v
			facts = cp
		}
		// the first block of a spliced helper: its named boolean / error / pointer results hold their
		// zero value (false / nil) until they are assigned
		if rg := f.regionEntry[it.b]; rg != nil && it.i == 0 && f.noConsist == 0 && rg.fd != nil && rg.fd.Type.Results != nil {
			for _, fl := range rg.fd.Type.Results.List {
				for _, nm := range fl.Names {
					if ob := tracked(nm); ob != nil {
						setFact(ob, false)
					}
				}
			}
		}
		for i := it.i; i < len(it.b.Nodes); i++ {
			n := it.b.Nodes[i]
			if rs, isRet := n.(*ast.ReturnStmt); isRet && o != nil && o.AvoidRet != nil && f.regionOf[it.b] == nil {
				if o.AvoidRet(rs, func(e ast.Expr) int8 { return valueOf(e, facts, rets) }) {
					blocked = true
					break
				}
			}
			if target(Point{it.b, i}, false) {
				return append(path, f.P.posStr(n.Pos())), true
			}
			if f.nodeBlocked(n, o) {
				blocked = true
				break
			}
			if f.noConsist == 0 {
				// a return site of a spliced helper: what its error result is on this path
				if rg := f.regionOf[it.b]; rg != nil {
					for ri := range rg.rets {
						rt := &rg.rets[ri]
						if rt.pt.B == it.b && rt.pt.I == i && len(rt.results) > 0 {
							if len(rt.results) > 1 {
								vec := make([]byte, len(rt.results))
								known := false
								for vi, res := range rt.results {
									switch valueOf(res, facts, rets) {
									case 1:
										vec[vi], known = '+', true
									case -1:
										vec[vi], known = '-', true
									default:
										vec[vi] = '0'
									}
								}
								cpv := map[*region]string{}
								for k2, v2 := range retv {
									cpv[k2] = v2
								}
								if known {
									cpv[rg] = string(vec)
								} else {
									delete(cpv, rg)
								}
								retv = cpv
							}
							last := rt.results[len(rt.results)-1]
							isB := false
							if t := f.Info.TypeOf(last); t != nil {
								if bt, ok := t.Underlying().(*types.Basic); ok && bt.Info()&types.IsBoolean != 0 {
									isB = true
								}
							}
							if t := f.Info.TypeOf(last); t != nil && (isB || types.Identical(t, errorType) || isNil(f.Info, last)) {
								cp := map[*region]int8{}
								for k2, v2 := range rets {
									cp[k2] = v2
								}
								if v := valueOf(last, facts, rets); v != 0 {
									cp[rg] = v
								} else {
									delete(cp, rg)
								}
								rets = cp
							}
						}
					}
				}
			}
			// an assignment to a tracked variable ends what is known about it
			if len(facts) > 0 {
				var killed []types.Object
				inspectNoLit(n, func(m ast.Node) bool {
					switch x := m.(type) {
					case *ast.AssignStmt:
						for _, l := range x.Lhs {
							if ob := objOfIdentRaw(f.Info, l); ob != nil {
								if _, has := facts[ob]; has {
									killed = append(killed, ob)
								}
							}
						}
					case *ast.UnaryExpr:
						if x.Op == token.AND {
							if ob := objOfIdentRaw(f.Info, x.X); ob != nil {
								if _, has := facts[ob]; has {
									killed = append(killed, ob)
								}
							}
						}
					}
					return true
				})
				if len(killed) > 0 {
					nf := map[types.Object]bool{}
					for k2, v2 := range facts {
						nf[k2] = v2
					}
					for _, k2 := range killed {
						delete(nf, k2)
					}
					facts = nf
				}
			}
			// `..., err := helper(...)` with the helper spliced: err is what the helper returned;
			// `v = <expr>` with the value of <expr> known on this path: v is that
			if as, isAs := n.(*ast.AssignStmt); isAs && f.noConsist == 0 && (as.Tok == token.ASSIGN || as.Tok == token.DEFINE) {
				if len(as.Rhs) == 1 && len(as.Lhs) > 1 {
					if c, isCall := ast.Unparen(as.Rhs[0]).(*ast.CallExpr); isCall {
						if rg := f.regionByCall(c); rg != nil {
							if v, has := rets[rg]; has && v != 0 {
								if ob := tracked(as.Lhs[len(as.Lhs)-1]); ob != nil {
									setFact(ob, v > 0)
								}
							}
							if vec, has := retv[rg]; has && len(vec) == len(as.Lhs) {
								for li, l := range as.Lhs {
									if ob := tracked(l); ob != nil && vec[li] != '0' {
										setFact(ob, vec[li] == '+')
									}
								}
							}
						}
					}
				} else if len(as.Rhs) == len(as.Lhs) {
					for li, l := range as.Lhs {
						if ob := tracked(l); ob != nil {
							if v := valueOf(as.Rhs[li], facts, rets); v != 0 {
								setFact(ob, v > 0)
							}
						}
					}
				}
			}
		}
		if blocked {
			continue
		}
		if len(it.b.Nodes) > 0 {
			path = append(append([]string{}, path...), fmt.Sprintf("%s (%s)", f.P.posStr(it.b.Nodes[0].Pos()), it.b.Kind))
		}
		if f.isExitBlock(it.b) {
			if target(Point{it.b, len(it.b.Nodes)}, true) {
				end := f.Body.Rbrace
				if len(it.b.Nodes) > 0 {
					end = it.b.Nodes[len(it.b.Nodes)-1].Pos()
				}
				return append(path, "exit at "+f.P.posStr(end)), true
			}
		}
		isBranch := len(it.b.Succs) == 2 && condOf(it.b) != nil && f.noConsist == 0
		for si, s := range it.b.Succs {
			if o != nil && o.AvoidEdge != nil && o.AvoidEdge(Edge{it.b, si}) {
				continue
			}
			nf := facts
			if isBranch {
				contradiction := false
				for _, ft := range f.EdgeFacts(it.b, si == 0) {
					// err == nil / err != nil on an error local
					if x, nonNilOnTrue, isTest := nilTest(f.Info, ft.Atom); isTest {
						if ob := isErrVar(x); ob != nil {
							nonNil := nonNilOnTrue == ft.Pol
							if v, has := nf[ob]; has {
								if v != nonNil {
									contradiction = true
								}
								continue
							}
							cp := map[types.Object]bool{}
							for k2, v2 := range nf {
								cp[k2] = v2
							}
							cp[ob] = nonNil
							nf = cp
						}
						continue
					}
					// a constant condition (a flag parameter of a spliced helper bound to true/false at the
					// call): the edge that needs the other value cannot be taken
					if tv, has := f.Info.Types[ft.Atom]; has && tv.Value != nil && tv.Value.Kind() == constant.Bool {
						if constant.BoolVal(tv.Value) != ft.Pol {
							contradiction = true
						}
						continue
					}
					id, isId := ast.Unparen(ft.Atom).(*ast.Ident)
					if !isId {
						continue
					}
					ob, _ := f.Info.Uses[id].(*types.Var)
					if ob == nil {
						continue
					}
					if bt, isB := ob.Type().Underlying().(*types.Basic); !isB || bt.Info()&types.IsBoolean == 0 {
						continue
					}
					if v, has := nf[ob]; has {
						if v != ft.Pol {
							contradiction = true
						}
						continue
					}
					cp := map[types.Object]bool{}
					for k2, v2 := range nf {
						cp[k2] = v2
					}
					cp[ob] = ft.Pol
					nf = cp
				}
				if contradiction {
					continue
				}
			}
			queue = append(queue, item{s, 0, path, nf, rets, retv})
		}
	}
	return nil, false
}

func (f *FuncCFG) entry() Point { return Point{f.G.Blocks[0], 0} }

// PathToExitAvoiding: is there a path from just after `from` to a normal exit that avoids
// every node matching avoid? Returns the witness.
func (f *FuncCFG) PathToExitAvoiding(from Point, avoid func(ast.Node) bool) ([]string, bool) {
	return f.reach(Point{from.B, from.I + 1}, &searchOpts{AvoidNode: avoid}, func(pt Point, atExit bool) bool { return atExit })
}

// PathFromEntryAvoiding: is there a path from entry to `to` that avoids nodes matching
// avoid / edges matching avoidEdge?
func (f *FuncCFG) PathFromEntryAvoiding(to Point, avoid func(ast.Node) bool, avoidEdge func(Edge) bool) ([]string, bool) {
	return f.reach(f.entry(), &searchOpts{AvoidNode: avoid, AvoidEdge: avoidEdge}, func(pt Point, atExit bool) bool {
		return !atExit && f.At(pt, to)
	})
}

// ---- condition edges ----------------------------------------------------------------------

// condOf returns the condition expression a block ends in (if it branches on one).
func condOf(b *cfg.Block) ast.Expr {
	if len(b.Succs) != 2 || len(b.Nodes) == 0 {
		return nil
	}
	e, _ := b.Nodes[len(b.Nodes)-1].(ast.Expr)
	return e
}

// nilTest recognises `x != nil`, `x == nil`, `nil != x`, `!(x == nil)`; returns the tested
// expression and whether the TRUE edge means "x is non-nil".
func nilTest(info *types.Info, e ast.Expr) (ast.Expr, bool, bool) {
	neg := false
	for {
		e = ast.Unparen(e)
		if u, ok := e.(*ast.UnaryExpr); ok && u.Op == token.NOT {
			neg = !neg
			e = u.X
			continue
		}
		break
	}
	b, ok := e.(*ast.BinaryExpr)
	if !ok || (b.Op != token.NEQ && b.Op != token.EQL) {
		return nil, false, false
	}
	var x ast.Expr
	if isNil(info, b.Y) {
		x = b.X
	} else if isNil(info, b.X) {
		x = b.Y
	} else {
		return nil, false, false
	}
	nonNilOnTrue := b.Op == token.NEQ
	if neg {
		nonNilOnTrue = !nonNilOnTrue
	}
	return x, nonNilOnTrue, true
}

func isNil(info *types.Info, e ast.Expr) bool {
	id, ok := ast.Unparen(e).(*ast.Ident)
	if !ok {
		return false
	}
	_, isNilObj := info.Uses[id].(*types.Nil)
	return isNilObj
}

func objOfIdent(info *types.Info, e ast.Expr) types.Object {
	id, ok := ast.Unparen(e).(*ast.Ident)
	if !ok {
		return nil
	}
	if o := info.Uses[id]; o != nil {
		return o
	}
	return info.Defs[id]
}

// assignedCallBefore finds, scanning backwards from the end of block b (then through
// single-predecessor chains), the most recent assignment to variable v; returns the call on
// its right-hand side (nil if the assignment is not from a call) and whether one was found.
func (f *FuncCFG) lastAssignBefore(b *cfg.Block, idx int, v types.Object) (*ast.AssignStmt, bool) {
	preds := f.preds()
	seen := map[*cfg.Block]bool{}
	for b != nil && !seen[b] {
		seen[b] = true
		for i := idx - 1; i >= 0; i-- {
			if as, ok := b.Nodes[i].(*ast.AssignStmt); ok {
				for _, l := range as.Lhs {
					if objOfIdent(f.Info, l) == v {
						return as, true
					}
				}
			}
		}
		ps := preds[b]
		if len(ps) != 1 {
			return nil, false
		}
		b = ps[0]
		idx = len(b.Nodes)
	}
	return nil, false
}

// reachingDef is one assignment to a variable that can reach a program point.
type reachingDef struct {
	At  Point
	Rhs ast.Expr // the assigned expression (the call, for a tuple assignment)
}

// ReachingDefs returns every assignment to v that reaches pt (backwards over the CFG, each
// path stops at the first assignment found) and whether the function entry is also reachable
// backwards without any assignment (v is then a parameter or is used before being set).
func (f *FuncCFG) ReachingDefs(pt Point, v types.Object) (defs []reachingDef, fromEntry bool) {
	preds := f.preds()
	seen := map[*cfg.Block]bool{}
	var walk func(b *cfg.Block, idx int)
	walk = func(b *cfg.Block, idx int) {
		for i := idx - 1; i >= 0; i-- {
			if as, ok := b.Nodes[i].(*ast.AssignStmt); ok {
				for li, l := range as.Lhs {
					isDef := objOfIdent(f.Info, l) == v
					// `*target = e` inside a spliced helper whose parameter target is bound to &v at the call:
					// an out-parameter, the assignment defines v
					if st, isStar := ast.Unparen(l).(*ast.StarExpr); !isDef && isStar && f.regionOf[b] != nil {
						if po := objOfIdent(f.Info, st.X); po != nil {
							if arg, _, okp := f.paramArg(po, Point{b, i}); okp {
								if u, isAddr := ast.Unparen(arg).(*ast.UnaryExpr); isAddr && u.Op == token.AND && objOfIdent(f.Info, u.X) == v {
									isDef = true
								}
							}
						}
					}
					if isDef {
						rhs := as.Rhs[0]
						if len(as.Rhs) == len(as.Lhs) {
							rhs = as.Rhs[li]
						}
						if as.Tok != token.ASSIGN && as.Tok != token.DEFINE {
							rhs = nil // x += e: the new value is not e (nil Rhs = an update, not a plain definition)
						}
						defs = append(defs, reachingDef{Point{b, i}, rhs})
						return
					}
				}
			}
			if ids, ok := b.Nodes[i].(*ast.IncDecStmt); ok && objOfIdent(f.Info, ids.X) == v {
				defs = append(defs, reachingDef{Point{b, i}, nil})
				return
			}
		}
		if b == f.G.Blocks[0] {
			fromEntry = true
		}
		for _, pb := range preds[b] {
			if !seen[pb] {
				seen[pb] = true
				walk(pb, len(pb.Nodes))
			}
		}
	}
	walk(pt.B, pt.I)
	return
}

func (f *FuncCFG) preds() map[*cfg.Block][]*cfg.Block {
	m := map[*cfg.Block][]*cfg.Block{}
	for _, b := range f.G.Blocks {
		if !b.Live {
			continue
		}
		for _, s := range b.Succs {
			m[s] = append(m[s], b)
		}
	}
	return m
}

// fact: an atomic condition known to hold (Pol=true) or not to hold (Pol=false) on an edge.
type fact struct {
	Atom ast.Expr
	Pol  bool
}

// factsOn decomposes a branch condition: on the TRUE edge of A && B both hold, on the FALSE
// edge of A || B neither holds; negations flip. go/cfg does not split short-circuit
// operators, so this recovers the guard forms `if a || b { return }`.
func factsOn(cond ast.Expr, branch bool) []fact {
	e := ast.Unparen(cond)
	switch x := e.(type) {
	case *ast.UnaryExpr:
		if x.Op == token.NOT {
			return factsOn(x.X, !branch)
		}
	case *ast.Ident, *ast.CallExpr:
		// a boolean temporary or an unexported single-expression helper stands for its
		// defining expression (canon.go): decompose that one
		if under, ok := astSubst[x]; ok {
			if fs := factsOn(under, branch); len(fs) > 0 {
				return fs
			}
			return nil
		}
	case *ast.BinaryExpr:
		if x.Op == token.LAND {
			if branch {
				return append(factsOn(x.X, true), factsOn(x.Y, true)...)
			}
			return nil
		}
		if x.Op == token.LOR {
			if !branch {
				return append(factsOn(x.X, false), factsOn(x.Y, false)...)
			}
			return nil
		}
	}
	return []fact{{e, branch}}
}

// forEachEdgeFact calls fn for every (edge, fact) pair of the function.
func (f *FuncCFG) forEachEdgeFact(fn func(e Edge, b *cfg.Block, ft fact)) {
	for _, b := range f.G.Blocks {
		if !b.Live {
			continue
		}
		c := condOf(b)
		if c == nil {
			continue
		}
		if tag, ok := caseTagOf[c]; ok {
			// a case of a tagged switch: the edges carry tag == case / tag != case
			c = &ast.BinaryExpr{X: tag, Op: token.EQL, Y: c}
		}
		for si, br := range []bool{true, false} {
			for _, ft := range factsOn(c, br) {
				for _, ft2 := range f.expandBoolTemp(ft, Point{b, len(b.Nodes) - 1}, 3) {
					fn(Edge{b, si}, b, ft2)
				}
			}
		}
	}
}

// expandBoolTemp: a branch on a boolean local that has exactly one reaching definition `v := <expr>`
// (not a call) whose operands are not assigned on any path between the definition and the branch
// stands for that expression; the fact is decomposed through it (named guards such as
// `tooBig := n > max; ...; if tooBig`). This is the flow-sensitive complement of canon.go's
// lexical temporaries: it also covers tuple definitions and operands that are reassigned only
// after the branch.
func (f *FuncCFG) expandBoolTemp(ft fact, pt Point, depth int) []fact {
	if depth <= 0 {
		return []fact{ft}
	}
	// `if helper(...)` with the helper spliced and returning one expression at one site: the branch
	// is on that expression (evaluated where the helper returned)
	if cl, isCall := ast.Unparen(ft.Atom).(*ast.CallExpr); isCall {
		if reg := f.regionByCall(cl); reg != nil && len(reg.rets) == 1 && len(reg.rets[0].results) == 1 {
			var out []fact
			for _, sub := range factsOn(reg.rets[0].results[0], ft.Pol) {
				out = append(out, f.expandBoolTemp(sub, reg.rets[0].pt, depth-1)...)
			}
			if len(out) > 0 {
				return out
			}
		}
		return []fact{ft}
	}
	id, ok := ast.Unparen(ft.Atom).(*ast.Ident)
	if !ok {
		return []fact{ft}
	}
	obj, _ := f.Info.Uses[id].(*types.Var)
	if obj == nil {
		return []fact{ft}
	}
	if bt, isB := obj.Type().Underlying().(*types.Basic); !isB || bt.Info()&types.IsBoolean == 0 {
		return []fact{ft}
	}
	defs, fromEntry := f.ReachingDefs(pt, obj)
	if len(defs) == 0 && fromEntry {
		// a boolean parameter of a spliced helper, never reassigned there: it is the argument
		// expression as evaluated at the call (`notify(old < new, old > new)` / `if increased`)
		if arg, cpt, ok := f.paramArg(obj, pt); ok {
			var out []fact
			for _, sub := range factsOn(arg, ft.Pol) {
				out = append(out, f.expandBoolTemp(sub, cpt, depth-1)...)
			}
			if len(out) == 0 {
				return nil
			}
			return out
		}
	}
	if len(defs) != 1 || fromEntry || defs[0].Rhs == nil {
		return []fact{ft}
	}
	rhs := ast.Unparen(defs[0].Rhs)
	defAt := defs[0].At
	if as, isAs := f.nodeAt(defs[0].At).(*ast.AssignStmt); isAs && len(as.Lhs) != len(as.Rhs) {
		rhs = nil // one result of a tuple: only meaningful through a spliced helper (below)
	}
	if cl, isCall := rhs.(*ast.CallExpr); isCall && f.regionByCall(cl) == nil && defAt.B == pt.B && defAt.I+1 == pt.I {
		// `if done := x.Try(k); done`: the test is on the call made by the statement before it
		return []fact{{cl, ft.Pol}}
	}
	if _, isCall := rhs.(*ast.CallExpr); isCall || rhs == nil {
		// the result of a spliced helper with one return site: the expression it returns there
		// (`wake := m.release(); ...; if wake` with release computing `wake = a && b` under its lock)
		re, rpt := f.Resolve(id, pt)
		if re == ast.Expr(id) || re == nil {
			return []fact{ft}
		}
		rhs, defAt = ast.Unparen(re), rpt
	}
	switch x := rhs.(type) {
	case *ast.BinaryExpr, *ast.Ident:
	case *ast.UnaryExpr:
		if x.Op != token.NOT {
			return []fact{ft}
		}
	default:
		return []fact{ft}
	}
	// operands: identifiers (by object) and selector paths (by raw key) mentioned in the definition
	objs := map[types.Object]bool{}
	paths := map[string]bool{}
	hasCall := false
	ast.Inspect(rhs, func(n ast.Node) bool {
		switch x := n.(type) {
		case *ast.Ident:
			if v, isVar := f.Info.Uses[x].(*types.Var); isVar {
				objs[v] = true
			}
		case *ast.SelectorExpr:
			paths[rawKey(x)] = true
		case *ast.CallExpr:
			if k := rawKey(x.Fun); k != "len" && k != "cap" {
				hasCall = true
			}
		}
		return true
	})
	// the definition is the statement right before the test (`if ok := a.Load() == x && ...; !ok`):
	// nothing can happen in between, the test is on the expression as just evaluated
	adjacent := defAt.B == pt.B && defAt.I+1 == pt.I
	if hasCall && !adjacent {
		return []fact{ft}
	}
	if adjacent {
		var out []fact
		for _, sub := range factsOn(rhs, ft.Pol) {
			out = append(out, f.expandBoolTemp(sub, defAt, depth-1)...)
		}
		if len(out) == 0 {
			return nil
		}
		return out
	}
	assigns := func(n ast.Node) bool {
		hit := false
		inspectNoLit(n, func(m ast.Node) bool {
			switch x := m.(type) {
			case *ast.AssignStmt:
				for _, l := range x.Lhs {
					if o := objOfIdentRaw(f.Info, l); o != nil && objs[o] {
						hit = true
					}
					if se, isSel := ast.Unparen(l).(*ast.SelectorExpr); isSel && paths[rawKey(se)] {
						hit = true
					}
				}
			case *ast.IncDecStmt:
				if o := objOfIdentRaw(f.Info, x.X); o != nil && objs[o] {
					hit = true
				}
				if se, isSel := ast.Unparen(x.X).(*ast.SelectorExpr); isSel && paths[rawKey(se)] {
					hit = true
				}
			}
			return !hit
		})
		return hit
	}
	// is there a path definition -> (node assigning an operand) -> branch ?
	dirty := false
	from := Point{defAt.B, defAt.I + 1}
	f.reach(from, nil, func(q Point, atExit bool) bool {
		if atExit || dirty {
			return dirty
		}
		if f.At(q, pt) {
			return false
		}
		if n := f.nodeAt(q); n != nil && assigns(n) {
			if _, reaches := f.reach(Point{q.B, q.I + 1}, nil, func(q2 Point, atExit2 bool) bool { return !atExit2 && f.At(q2, pt) }); reaches {
				dirty = true
			}
		}
		return false
	})
	if dirty {
		return []fact{ft}
	}
	var out []fact
	for _, sub := range factsOn(rhs, ft.Pol) {
		out = append(out, f.expandBoolTemp(sub, defAt, depth-1)...)
	}
	if len(out) == 0 {
		// the polarity cannot be decomposed (e.g. the false edge of a conjunction): no atom facts
		return nil
	}
	return out
}

// ErrEdges finds the branch edges that test the error result of `call` (assigned to some
// variable) against nil: success = edges taken when the error is nil, failure = non-nil.
func (f *FuncCFG) ErrEdges(call *ast.CallExpr) (success, failure []Edge) {
	f.forEachEdgeFact(func(e Edge, b *cfg.Block, ft fact) {
		x, nonNilOnTrue, ok := nilTest(f.Info, ft.Atom)
		if !ok {
			return
		}
		v := objOfIdent(f.Info, x)
		if v == nil {
			return
		}
		as, found := f.lastAssignBefore(b, len(b.Nodes)-1, v)
		if !found || len(as.Rhs) != 1 || ast.Unparen(as.Rhs[0]) != ast.Expr(call) {
			// ... or the tested variable stands for the call's result through the parameter of a
			// spliced helper (`finish(store, store.Set(k, v))` testing its error parameter)
			if found {
				return
			}
			if t := f.Info.TypeOf(x); t == nil || !types.Identical(t, errorType) {
				return
			}
			if re, _ := f.ResolveToCall(x, Point{b, len(b.Nodes) - 1}); re == nil || ast.Unparen(re) != ast.Expr(call) {
				return
			}
		}
		if nonNilOnTrue == ft.Pol {
			failure = append(failure, e)
		} else {
			success = append(success, e)
		}
	})
	return
}

// OnlyAfterSuccess: is every path from entry to `pt` forced through a success edge of call?
// Returns a witness path that bypasses all success edges, if any.
func (f *FuncCFG) OnlyAfterSuccess(pt Point, call *ast.CallExpr) (witness []string, ok bool, nEdges int) {
	succ, _ := f.ErrEdges(call)
	if len(succ) == 0 {
		return nil, false, 0
	}
	w, found := f.PathFromEntryAvoiding(pt, nil, func(e Edge) bool {
		for _, s := range succ {
			if s == e {
				return true
			}
		}
		return false
	})
	return w, !found, len(succ)
}

// callsIn returns all call expressions in the body (not inside literals) matching pred.
func (f *FuncCFG) Calls(pred func(*ast.CallExpr) bool) []*ast.CallExpr {
	var out []*ast.CallExpr
	seen := map[*ast.CallExpr]bool{}
	for _, b := range f.G.Blocks {
		if !b.Live {
			continue
		}
		for _, nd := range b.Nodes {
			inspectNoLit(nd, func(n ast.Node) bool {
				if c, ok := n.(*ast.CallExpr); ok && !seen[c] && pred(c) {
					seen[c] = true
					out = append(out, c)
				}
				return true
			})
		}
	}
	return out
}

// paramArg: if obj is a parameter or the receiver of a helper that was expanded around pt, the
// argument expression it stands for and the point of the call in the caller.
func (f *FuncCFG) paramArg(obj types.Object, pt Point) (ast.Expr, Point, bool) {
	e, p, ok := f.paramArg0(obj, pt)
	if ok && p.B != nil && !p.B.Live {
		// the continuation block the call sits in is dead (all returns of the helper were classified
		// into the correlated copies): evaluate the argument at the end of the block before the call
		for reg := f.regionOf[pt.B]; reg != nil; reg = reg.parent {
			if reg.callPt == p && reg.argPt.B != nil && reg.argPt.B.Live {
				return e, reg.argPt, true
			}
		}
	}
	return e, p, ok
}

func (f *FuncCFG) paramArg0(obj types.Object, pt Point) (ast.Expr, Point, bool) {
	for reg := f.regionOf[pt.B]; reg != nil; reg = reg.parent {
		if reg.fd.Recv != nil && len(reg.fd.Recv.List) == 1 && len(reg.fd.Recv.List[0].Names) == 1 && f.Info.Defs[reg.fd.Recv.List[0].Names[0]] == obj {
			if reg.recvX != nil {
				return reg.recvX, reg.recvPt, true
			}
			if se, ok := ast.Unparen(reg.call.Fun).(*ast.SelectorExpr); ok {
				return se.X, reg.callPt, true
			}
		}
		i := 0
		for _, fl := range reg.fd.Type.Params.List {
			for _, nm := range fl.Names {
				if f.Info.Defs[nm] == obj && i < len(reg.call.Args) {
					return reg.call.Args[i], reg.callPt, true
				}
				i++
			}
		}
	}
	return nil, Point{}, false
}

// Resolve follows e (evaluated at pt) through the parameters of expanded helpers and through
// single reaching definitions to the expression it stands for.
func (f *FuncCFG) Resolve(e ast.Expr, pt Point) (ast.Expr, Point) {
	return f.resolve(e, pt, !f.CallsOpaque)
}

// ResolveToCall is Resolve that stops at the first call it reaches (it does not look into the
// return value of an expanded helper): "which call produced this value".
func (f *FuncCFG) ResolveToCall(e ast.Expr, pt Point) (ast.Expr, Point) {
	return f.resolve(e, pt, false)
}

func (f *FuncCFG) resolve(e ast.Expr, pt Point, intoHelpers bool) (ast.Expr, Point) {
	for steps := 0; steps < 12; steps++ {
		if c, isCall := ast.Unparen(e).(*ast.CallExpr); isCall {
			if !intoHelpers {
				break
			}
			// the value of an expanded helper with a single return site is what it returns
			if reg := f.regionByCall(c); reg != nil && len(reg.rets) == 1 && len(reg.rets[0].results) == 1 {
				e, pt = reg.rets[0].results[0], reg.rets[0].pt
				continue
			}
			break
		}
		// a field of a value that resolves to a composite literal with that field keyed: the field's
		// expression (`u := helper(); ... u.diff` with helper returning `result{diff: x, ...}`)
		if se, isSel := ast.Unparen(e).(*ast.SelectorExpr); isSel {
			if sel := f.Info.Selections[se]; sel != nil && sel.Kind() == types.FieldVal {
				if _, baseIsIdent := ast.Unparen(se.X).(*ast.Ident); baseIsIdent {
					be, bpt := f.resolve(se.X, pt, intoHelpers)
					if be != se.X {
						// a struct VALUE (a result record), or an object behind a pointer whose field is never
						// assigned anywhere in the package after construction (a parameter object)
						lit, _ := ast.Unparen(be).(*ast.CompositeLit)
						if u, isAddr := ast.Unparen(be).(*ast.UnaryExpr); lit == nil && isAddr && u.Op == token.AND {
							if fv, isVar := sel.Obj().(*types.Var); isVar && !f.P.fieldEverAssigned(f.Info, fv) {
								lit, _ = ast.Unparen(u.X).(*ast.CompositeLit)
							}
						}
						// ... or the value a record constructor of the package builds (`return &T{f: param, ...}`):
						// the field's initialiser with the constructor's parameters replaced by the arguments
						var bind map[types.Object]ast.Expr
						if c, isCall := ast.Unparen(be).(*ast.CallExpr); lit == nil && isCall {
							if cl, isPtr, b := constructorLiteral(f.P, f.Info, c); cl != nil {
								if fv, isVar := sel.Obj().(*types.Var); isVar && (!isPtr || !f.P.fieldEverAssigned(f.Info, fv)) {
									lit, bind = cl, b
								}
							}
						}
						if lit != nil {
							found := false
							for _, el := range lit.Elts {
								if kv, isKV := el.(*ast.KeyValueExpr); isKV {
									if k, isId := kv.Key.(*ast.Ident); isId && k.Name == se.Sel.Name {
										v := kv.Value
										if bind != nil {
											v = cloneWithSubst(f.Info, v, bind)
										}
										if v != nil {
											e, pt, found = v, bpt, true
										}
									}
								}
							}
							if found {
								continue
							}
						}
					}
				}
			}
			break
		}
		id, ok := ast.Unparen(e).(*ast.Ident)
		if !ok {
			break
		}
		obj := f.Info.Uses[id]
		if obj == nil {
			obj = f.Info.Defs[id]
		}
		if _, isVar := obj.(*types.Var); !isVar {
			break
		}
		defs, fromEntry := f.ReachingDefs(pt, obj)
		if len(defs) == 1 && !fromEntry && defs[0].Rhs == nil {
			break // the variable was updated in place (x++, x += e): it stands for itself
		}
		if len(defs) == 1 && !fromEntry {
			// one result of a tuple assignment from a spliced helper with a single return site: the
			// matching result expression of that return
			if as, isAs := f.nodeAt(defs[0].At).(*ast.AssignStmt); isAs && len(as.Rhs) == 1 && len(as.Lhs) > 1 && intoHelpers {
				if c, isCall := ast.Unparen(as.Rhs[0]).(*ast.CallExpr); isCall {
					if reg := f.regionByCall(c); reg != nil && len(reg.rets) == 1 && len(reg.rets[0].results) == len(as.Lhs) {
						li := -1
						for k, l := range as.Lhs {
							if objOfIdentRaw(f.Info, l) == obj {
								li = k
							}
						}
						if li >= 0 {
							e, pt = reg.rets[0].results[li], reg.rets[0].pt
							continue
						}
					}
				}
			}
			if c, isCall := ast.Unparen(defs[0].Rhs).(*ast.CallExpr); isCall && !pureExpr(f.Info, defs[0].Rhs) {
				// a value produced by a call: the call is what it stands for (unless the call is
				// an expanded single-return helper, handled at the top of the loop)
				if reg := f.regionByCall(c); intoHelpers && reg != nil && len(reg.rets) == 1 && len(reg.rets[0].results) == 1 {
					e, pt = defs[0].Rhs, defs[0].At
					continue
				}
				return defs[0].Rhs, defs[0].At
			}
			e, pt = defs[0].Rhs, defs[0].At
			continue
		}
		if len(defs) == 0 {
			if arg, cpt, ok := f.paramArg(obj, pt); ok {
				e, pt = arg, cpt
				continue
			}
			// a variable of the enclosing function captured by this closure, assigned once
			if rhs, ok := singleDef[obj]; ok && (obj.Pos() < f.Body.Pos() || obj.Pos() > f.Body.End()) {
				if _, isCall := ast.Unparen(rhs).(*ast.CallExpr); isCall && !pureExpr(f.Info, rhs) {
					return rhs, pt
				}
				e = rhs
				continue
			}
		}
		break
	}
	return e, pt
}

// KeyAt is the canonical key of e with its identifiers resolved (Resolve, recursively) at pt:
// two spellings of the same value through different temporaries, helper parameters or
// single-expression helpers get the same key.
func (f *FuncCFG) KeyAt(e ast.Expr, pt Point) string { return f.keyAt(e, pt, 6) }

func (f *FuncCFG) keyAt(e ast.Expr, pt Point, depth int) string {
	if _, isCall := ast.Unparen(e).(*ast.CallExpr); isCall && depth > 0 {
		if re, rpt := f.Resolve(e, pt); re != e {
			return f.keyAt(re, rpt, depth-1)
		}
	}
	if _, isSel := ast.Unparen(e).(*ast.SelectorExpr); isSel && depth > 0 {
		// a field of a struct result that resolves to the keyed element of a composite literal
		if re, rpt := f.Resolve(e, pt); re != e {
			return f.keyAt(re, rpt, depth-1)
		}
	}
	type saved struct {
		n   ast.Node
		old string
	}
	var restore []saved
	var tmp []ast.Node
	if depth > 0 {
		ast.Inspect(e, func(n ast.Node) bool {
			id, ok := n.(*ast.Ident)
			if !ok {
				return true
			}
			if _, isVar := f.Info.Uses[id].(*types.Var); !isVar {
				return true
			}
			if old, has := keySubst[id]; has {
				// a pure temporary (canon.go): resolve the identifiers of its defining expression too
				if under, ok := astSubst[id]; ok {
					k := f.keyAt(under, pt, depth-1)
					if !strings.Contains(k, "?") && k != old {
						keySubst[id] = k
						restore = append(restore, saved{id, old})
					}
				}
				return true
			}
			if re, rpt := f.Resolve(id, pt); re != ast.Expr(id) {
				k := f.keyAt(re, rpt, depth-1)
				if !strings.Contains(k, "?") {
					keySubst[id] = k
					tmp = append(tmp, id)
				}
			}
			return true
		})
	}
	k := exprKey(e)
	for _, n := range tmp {
		delete(keySubst, n)
	}
	for _, sv := range restore {
		keySubst[sv.n] = sv.old
	}
	return k
}

// PointOf finds the block point whose node contains n.
func (f *FuncCFG) PointOf(n ast.Node) (Point, bool) {
	pts := f.Find(func(c ast.Node) bool { return c == n })
	if len(pts) == 0 {
		return Point{}, false
	}
	return pts[0], true
}

// selectorCall matches calls of the form <recvExpr>.<name>(...) where the receiver's
// static type (deref) has the given type name ("" = any), e.g. ("KVStore","Set").
func selectorCall(info *types.Info, c *ast.CallExpr, recvType, name string) bool {
	se, ok := ast.Unparen(c.Fun).(*ast.SelectorExpr)
	if !ok {
		// the same operation written as a package-level function taking the object as a parameter
		fn := staticCallee(info, c)
		if fn == nil || info == nil || (funcName(fn) != name && !calleeRenamedFrom(info, c, name)) {
			return false
		}
		sig, _ := fn.Type().(*types.Signature)
		if sig == nil || sig.Recv() != nil {
			return false
		}
		if recvType == "" {
			return true
		}
		for i := 0; i < sig.Params().Len(); i++ {
			if tn := typeName(sig.Params().At(i).Type()); tn == recvType || shortTypeName(tn) == recvType {
				return true
			}
		}
		return false
	}
	if se.Sel.Name != name && !calleeRenamedFrom(info, c, name) {
		return false
	}
	if recvType == "" {
		return true
	}
	tn := typeName(info.TypeOf(se.X))
	return tn == recvType || shortTypeName(tn) == recvType
}

func shortTypeName(s string) string {
	for i := len(s) - 1; i >= 0; i-- {
		if s[i] == '.' {
			return s[i+1:]
		}
	}
	return s
}

// fieldSel reports whether e is a selector of field `field` (any base).
func fieldSel(info *types.Info, e ast.Expr, field string) bool {
	se, ok := ast.Unparen(e).(*ast.SelectorExpr)
	if !ok || se.Sel.Name != field {
		return false
	}
	sel := info.Selections[se]
	return sel != nil && sel.Kind() == types.FieldVal
}

// CondEdges returns the edges on which an atomic condition matching `match` is known to be
// true (trueEdges) or false (falseEdges); negations and &&/|| are decomposed.
func (f *FuncCFG) CondEdges(match func(cond ast.Expr) bool) (trueEdges, falseEdges []Edge) {
	f.forEachEdgeFact(func(e Edge, b *cfg.Block, ft fact) {
		if !match(ft.Atom) {
			return
		}
		if ft.Pol {
			trueEdges = append(trueEdges, e)
		} else {
			falseEdges = append(falseEdges, e)
		}
	})
	return
}

// OnlyThroughEdges: every path entry -> pt crosses one of edges. Returns witness if not.
func (f *FuncCFG) OnlyThroughEdges(pt Point, edges []Edge) ([]string, bool) {
	if len(edges) == 0 {
		return []string{"no such edge exists in " + f.Name}, false
	}
	w, found := f.PathFromEntryAvoiding(pt, nil, func(e Edge) bool {
		for _, s := range edges {
			if s == e {
				return true
			}
		}
		return false
	})
	return w, !found
}

// definingCall returns the call expression that the variable (ident) is assigned from,
// if the variable has exactly one assignment in body and that assignment's RHS is a call.
func definingCall(info *types.Info, body ast.Node, id ast.Expr) *ast.CallExpr {
	v := objOfIdent(info, id)
	if v == nil {
		return nil
	}
	var calls []*ast.CallExpr
	n := 0
	ast.Inspect(body, func(c ast.Node) bool {
		as, ok := c.(*ast.AssignStmt)
		if !ok {
			return true
		}
		for _, l := range as.Lhs {
			if objOfIdent(info, l) == v {
				n++
				if len(as.Rhs) == 1 {
					if ce, ok := ast.Unparen(as.Rhs[0]).(*ast.CallExpr); ok {
						calls = append(calls, ce)
					}
				}
			}
		}
		return true
	})
	if n == 1 && len(calls) == 1 {
		return calls[0]
	}
	return nil
}

// ReachingCall: the call whose result was most recently assigned to the variable `id` before
// the branch condition containing `at` is evaluated (flow-sensitive along single-predecessor
// chains). nil if unknown.
func (f *FuncCFG) ReachingCall(at ast.Node, id ast.Expr) *ast.CallExpr {
	v := objOfIdent(f.Info, id)
	if v == nil {
		return nil
	}
	for _, b := range f.G.Blocks {
		if !b.Live {
			continue
		}
		for i, n := range b.Nodes {
			hit := false
			inspectNoLit(n, func(c ast.Node) bool {
				if c == at {
					hit = true
				}
				return !hit
			})
			if !hit {
				continue
			}
			as, found := f.lastAssignBefore(b, i, v)
			if !found || len(as.Rhs) != 1 {
				return nil
			}
			c, _ := ast.Unparen(as.Rhs[0]).(*ast.CallExpr)
			return c
		}
	}
	return nil
}

// AfterComm returns the point at which a communication (send/receive statement) has
// happened: for a plain statement the point right after it; for the comm of a select case the
// entry of that case's body (go/cfg places all comm statements of a select in the head block
// although only the chosen one happens).
func (f *FuncCFG) AfterComm(pred func(ast.Node) bool) []Point {
	var out []Point
	// the select clauses of the function and of every helper spliced into it
	clauses := map[*ast.CommClause]bool{}
	for _, b := range f.G.Blocks {
		if !b.Live {
			continue
		}
		cc, ok := b.Stmt.(*ast.CommClause)
		if !ok || cc.Comm == nil || b.Kind != cfg.KindSelectCaseBody {
			continue
		}
		hit := false
		ast.Inspect(cc.Comm, func(m ast.Node) bool {
			if m != nil && pred(m) {
				hit = true
			}
			return !hit
		})
		if hit {
			clauses[cc] = true
		}
	}
	inClause := func(n ast.Node) bool {
		for cc := range clauses {
			if cc.Comm.Pos() <= n.Pos() && n.End() <= cc.Comm.End() {
				return true
			}
		}
		return false
	}
	for _, b := range f.G.Blocks {
		if !b.Live {
			continue
		}
		if cc, ok := b.Stmt.(*ast.CommClause); ok && b.Kind == cfg.KindSelectCaseBody && clauses[cc] {
			out = append(out, Point{b, 0})
		}
	}
	for _, pt := range f.Find(pred) {
		if n := f.nodeAt(pt); n != nil && !inClause(n) {
			out = append(out, Point{pt.B, pt.I + 1})
		}
	}
	return out
}

// selfAliases: the receiver variable of the analysed method together with the receiver variables of
// the helpers spliced into it that were called on it (`l.poll()` inside Wait: poll's `l` is Wait's `l`).
func (f *FuncCFG) selfAliases(self types.Object) map[types.Object]bool {
	out := map[types.Object]bool{}
	if self == nil {
		return out
	}
	out[self] = true
	regs := map[*region]bool{}
	for _, rg := range f.regionOf {
		for ; rg != nil; rg = rg.parent {
			regs[rg] = true
		}
	}
	for changed := true; changed; {
		changed = false
		for rg := range regs {
			if rg.fd == nil || rg.fd.Recv == nil || len(rg.fd.Recv.List) != 1 || len(rg.fd.Recv.List[0].Names) != 1 {
				continue
			}
			ro := f.Info.Defs[rg.fd.Recv.List[0].Names[0]]
			if ro == nil || out[ro] {
				continue
			}
			x := rg.recvX
			if x == nil && rg.call != nil {
				if se, ok := ast.Unparen(rg.call.Fun).(*ast.SelectorExpr); ok {
					x = se.X
				}
			}
			if x != nil && out[objOfIdent(f.Info, x)] {
				out[ro] = true
				changed = true
			}
		}
	}
	return out
}

// sentinelError: a package-level error variable initialised by an error constructor and never
// assigned anywhere in its package - it is non-nil.
func (p *Prog) sentinelError(o types.Object) bool {
	v, ok := o.(*types.Var)
	if !ok || v.IsField() || v.Pkg() == nil || v.Parent() != v.Pkg().Scope() || !types.Identical(v.Type(), errorType) {
		return false
	}
	if p.sentinels == nil {
		p.sentinels = map[*types.Var]bool{}
	}
	if r, has := p.sentinels[v]; has {
		return r
	}
	res := false
	if pk := p.Pkgs[v.Pkg().Path()]; pk != nil && pk.TypesInfo != nil {
		for _, file := range pk.Syntax {
			ast.Inspect(file, func(n ast.Node) bool {
				switch x := n.(type) {
				case *ast.ValueSpec:
					for i, nm := range x.Names {
						if pk.TypesInfo.Defs[nm] == v && i < len(x.Values) {
							if c, isCall := ast.Unparen(x.Values[i]).(*ast.CallExpr); isCall && isNonNilErrorConstructor(calleeShort(pk.TypesInfo, c)) {
								res = true
							}
						}
					}
				}
				return true
			})
		}
		if res {
			for _, file := range pk.Syntax {
				ast.Inspect(file, func(n ast.Node) bool {
					switch x := n.(type) {
					case *ast.AssignStmt:
						for _, l := range x.Lhs {
							if id, isId := ast.Unparen(l).(*ast.Ident); isId && pk.TypesInfo.Uses[id] == v {
								res = false
							}
						}
					case *ast.UnaryExpr:
						if id, isId := ast.Unparen(x.X).(*ast.Ident); x.Op == token.AND && isId && pk.TypesInfo.Uses[id] == v {
							res = false
						}
					}
					return true
				})
			}
		}
	}
	p.sentinels[v] = res
	return res
}

// recvObj returns the receiver variable of a method declaration (nil for functions and
// anonymous receivers).
func recvObj(info *types.Info, fd *ast.FuncDecl) types.Object {
	if fd.Recv == nil {
		// a former method written as a package-level function: the parameter in the receiver's role
		if id := pseudoRecvIdent(fd, ""); id != nil {
			return info.Defs[id]
		}
		return nil
	}
	if len(fd.Recv.List) == 0 || len(fd.Recv.List[0].Names) == 0 {
		return nil
	}
	return info.Defs[fd.Recv.List[0].Names[0]]
}

// loopInfo describes one loop of a function in CFG terms, independent of its source form
// (range over slice/int/channel, three-clause for, while-style for).
type loopInfo struct {
	Head, Body, Done *cfg.Block
	Stmt             ast.Stmt
}

// Loops returns the loops of the function (go/cfg marks loop heads by block kind).
func (f *FuncCFG) Loops() []loopInfo {
	var out []loopInfo
	for _, b := range f.G.Blocks {
		if !b.Live || (b.Kind != cfg.KindRangeLoop && b.Kind != cfg.KindForLoop) || len(b.Succs) == 0 {
			continue
		}
		li := loopInfo{Head: b, Body: b.Succs[0], Stmt: b.Stmt}
		if len(b.Succs) > 1 {
			li.Done = b.Succs[1]
		}
		out = append(out, li)
	}
	return out
}

// InLoopBody reports whether pt can be reached from the loop's body entry without passing the
// loop head again (i.e. it belongs to one iteration of the loop).
func (f *FuncCFG) InLoopBody(l loopInfo, pt Point) bool {
	_, found := f.reach(Point{l.Body, 0}, &searchOpts{AvoidEdge: func(e Edge) bool { return e.From.Succs[e.Succ] == l.Head }}, func(q Point, atExit bool) bool {
		return !atExit && f.At(q, pt)
	})
	return found
}

// IterationSkips: is there a path through one iteration (from the body entry back to the loop
// head, or out of the function) that avoids every node matching `must`?
func (f *FuncCFG) IterationSkips(l loopInfo, must func(ast.Node) bool) ([]string, bool) {
	return f.reachBlock(Point{l.Body, 0}, &searchOpts{AvoidNode: must}, func(b *cfg.Block) bool { return b == l.Head })
}

// reachBlock is reach with a target on blocks (entered from a predecessor) or function exits.
func (f *FuncCFG) reachBlock(from Point, o *searchOpts, target func(b *cfg.Block) bool, exitCounts ...bool) ([]string, bool) {
	type item struct {
		b    *cfg.Block
		i    int
		path []string
	}
	seen := map[*cfg.Block]bool{}
	queue := []item{{from.B, from.I, nil}}
	first := true
	for len(queue) > 0 {
		it := queue[0]
		queue = queue[1:]
		if !it.b.Live {
			continue
		}
		if !first && target(it.b) {
			return append(it.path, fmt.Sprintf("block %s", it.b.Kind)), true
		}
		if !first || it.i == 0 {
			if seen[it.b] {
				continue
			}
			seen[it.b] = true
		}
		first = false
		blocked := false
		for i := it.i; i < len(it.b.Nodes); i++ {
			if f.nodeBlocked(it.b.Nodes[i], o) {
				blocked = true
				break
			}
		}
		if blocked {
			continue
		}
		path := it.path
		if len(it.b.Nodes) > 0 {
			path = append(append([]string{}, path...), fmt.Sprintf("%s (%s)", f.P.posStr(it.b.Nodes[0].Pos()), it.b.Kind))
		}
		if f.isExitBlock(it.b) && (len(exitCounts) == 0 || exitCounts[0]) {
			return append(path, "exit"), true
		}
		for si, s := range it.b.Succs {
			if o != nil && o.AvoidEdge != nil && o.AvoidEdge(Edge{it.b, si}) {
				continue
			}
			queue = append(queue, item{s, 0, path})
		}
	}
	return nil, false
}

// ---- helper expansion ----------------------------------------------------------------------
//
// A path rule must not depend on whether a piece of a function lives in the function itself or
// in an unexported helper of the same package: extracting a helper and inlining one are the most
// common behaviour-preserving edits. Every FuncCFG is therefore built with the statement-level
// calls of unexported same-package functions and methods expanded in place (bounded depth, no
// recursion): the block is split before the call, a fresh copy of the callee's graph is linked
// in, and the callee's returns continue at the call node, which stays in the graph (so its
// results can still be followed). The callee's ReturnStmt nodes are replaced by their result
// expressions: in the expanded graph a ReturnStmt always leaves the analysed function.

var expandHelpers = true

const expandDepth = 3

// only small helpers are expanded: the extracted piece of a function, not the package's machinery
const expandMaxStmts = 30

// a helper that is called from exactly one place: the bound for splicing it is larger
const expandMaxStmtsSingle = 120

// singleCallSite: fn (unexported, of the package of info) is referenced exactly once in its package,
// as the callee of a call.
func (p *Prog) singleCallSite(info *types.Info, fn *types.Func) bool {
	if p == nil {
		return false
	}
	if p.callSites == nil {
		p.callSites = map[*types.Info]map[*types.Func]int{}
	}
	m, ok := p.callSites[info]
	if !ok {
		m = map[*types.Func]int{}
		p.callSites[info] = m
		for _, o := range info.Uses {
			if f2, isFn := o.(*types.Func); isFn {
				m[f2.Origin()]++
			}
		}
	}
	return m[fn.Origin()] == 1
}

func stmtCount(b *ast.BlockStmt) int {
	n := 0
	ast.Inspect(b, func(x ast.Node) bool {
		if _, ok := x.(ast.Stmt); ok {
			n++
		}
		return true
	})
	return n
}

// newFuncCFGPlain builds the graph of the body alone (rules that visit every function of a
// package anyway and must see each site once).
func newFuncCFGPlain(p *Prog, info *types.Info, body *ast.BlockStmt, name string) *FuncCFG {
	return &FuncCFG{P: p, Info: info, Body: body, G: cfg.New(body, mayReturn(info)), Name: name, expandedHead: map[*cfg.Block]bool{}}
}

type declIndex struct {
	byFunc map[*types.Func]*ast.FuncDecl
	infoOf map[*ast.FuncDecl]*types.Info
}

func (p *Prog) decls() *declIndex {
	if p.declIdx != nil {
		return p.declIdx
	}
	di := &declIndex{byFunc: map[*types.Func]*ast.FuncDecl{}, infoOf: map[*ast.FuncDecl]*types.Info{}}
	for _, pk := range p.Pkgs {
		if pk.TypesInfo == nil || len(pk.Syntax) == 0 {
			continue
		}
		for _, file := range pk.Syntax {
			for _, d := range file.Decls {
				if fd, ok := d.(*ast.FuncDecl); ok && fd.Body != nil {
					if fn, ok := pk.TypesInfo.Defs[fd.Name].(*types.Func); ok {
						di.byFunc[fn] = fd
						di.infoOf[fd] = pk.TypesInfo
					}
				}
			}
		}
	}
	p.declIdx = di
	return di
}

// stmtLevelCall returns the call of a node of one of the forms  f(...)  |  x, y := f(...)  |
// x = f(...)  |  return f(...)  |  var x = f(...) .
func stmtLevelCall(n ast.Node) *ast.CallExpr {
	var e ast.Expr
	switch x := n.(type) {
	case *ast.ExprStmt:
		e = x.X
	case *ast.AssignStmt:
		if len(x.Rhs) == 1 {
			e = x.Rhs[0]
		}
	case *ast.ReturnStmt:
		if len(x.Results) == 1 {
			e = x.Results[0]
		} else {
			// `return helper(...), nil`: one call, every other result a constant (no evaluation-order
			// question)
			for _, res := range x.Results {
				if c, isCall := ast.Unparen(res).(*ast.CallExpr); isCall {
					if e != nil {
						return nil
					}
					e = c
					continue
				}
				switch y := ast.Unparen(res).(type) {
				case *ast.BasicLit:
				case *ast.Ident:
					if y.Name != "nil" && y.Name != "true" && y.Name != "false" {
						return nil
					}
				default:
					return nil
				}
			}
		}
	case *ast.ValueSpec:
		if len(x.Values) == 1 {
			e = x.Values[0]
		}
	case ast.Expr:
		e = x // a bare expression node: range operand, branch condition, switch tag
		for {
			if u, ok := ast.Unparen(e).(*ast.UnaryExpr); ok && u.Op == token.NOT {
				e = u.X // `if !helper(...)`
				continue
			}
			break
		}
	}
	if e == nil {
		return nil
	}
	c, _ := ast.Unparen(e).(*ast.CallExpr)
	return c
}

func (f *FuncCFG) expand(depth int, onStack map[*types.Func]bool) {
	if depth <= 0 || f.P == nil {
		return
	}
	di := f.P.decls()
	work := append([]*cfg.Block{}, f.G.Blocks...)
	for len(work) > 0 {
		b := work[0]
		work = work[1:]
		if !b.Live {
			continue
		}
		start := 0
		if f.expandedHead[b] {
			start = 1 // node 0 is a call that has been expanded already
		}
		for i := start; i < len(b.Nodes); i++ {
			call := stmtLevelCall(b.Nodes[i])
			if call == nil {
				continue
			}
			var fd *ast.FuncDecl
			var recvX ast.Expr
			var recvPt Point
			var litEnv *region
			fn := staticCallee(f.Info, call)
			if fn != nil {
				if f.rescan[b] {
					continue // decided at the level this block was spliced from
				}
				fn = fn.Origin()
				fd = di.byFunc[fn]
				if fd == nil || fd.Name.IsExported() || onStack[fn] || di.infoOf[fd] != f.Info {
					continue
				}
				if fd.Body == f.Body || (stmtCount(fd.Body) > expandMaxStmts && !(stmtCount(fd.Body) <= expandMaxStmtsSingle && f.P.singleCallSite(f.Info, fn))) {
					continue // direct recursion, or not a small helper (a helper with one call site in the whole package is the moved body of its caller and is spliced up to a larger bound)
				}
			} else {
				// a call of a function VALUE that is known to be one function literal: a local closure
				// defined once, or a parameter of a spliced helper that was handed a literal
				// (`forEach(func(k, v) {...})` with `visit(k, v)` inside forEach). Splicing the
				// literal's body at the call is exact inlining.
				ft, body, env := f.boundLiteralEnv(call.Fun, Point{b, i})
				litEnv = env
				if body == nil {
					// ... or one method value of an unexported method (`t.locked(t.release)`): the
					// method's body with its receiver standing for the value's receiver expression
					if mfd, mfn, rx, rpt := f.boundMethodValue(call.Fun, Point{b, i}); mfd != nil && !onStack[mfn] && !mfd.Name.IsExported() && di.infoOf[mfd] == f.Info && mfd.Body != f.Body && stmtCount(mfd.Body) <= expandMaxStmts {
						fd, fn, recvX, recvPt = mfd, mfn, rx, rpt
					}
				}
				if fd == nil {
					if body == nil || f.litOnStack[body] || body == f.Body || stmtCount(body) > expandMaxStmts {
						continue
					}
					fd = &ast.FuncDecl{Name: ast.NewIdent("func"), Type: ft, Body: body}
				}
			}
			sub := &FuncCFG{P: f.P, Info: f.Info, Body: fd.Body, G: cfg.New(fd.Body, mayReturn(f.Info)), Name: f.Name, expandedHead: map[*cfg.Block]bool{}, litOnStack: map[*ast.BlockStmt]bool{fd.Body: true}}
			for k := range f.litOnStack {
				sub.litOnStack[k] = true
			}
			st := map[*types.Func]bool{}
			if fn != nil {
				st[fn] = true
			}
			for k := range onStack {
				st[k] = true
			}
			sub.expand(depth-1, st)
			// split b before the call
			tail := &cfg.Block{Nodes: b.Nodes[i:], Succs: b.Succs, Kind: b.Kind, Live: true, Stmt: b.Stmt}
			f.expandedHead[tail] = true
			if f.regionOf == nil {
				f.regionOf = map[*cfg.Block]*region{}
			}
			f.regionOf[tail] = f.regionOf[b]
			reg := &region{call: call, fd: fd, callPt: Point{tail, 0}, argPt: Point{b, i}, parent: f.regionOf[b], recvX: recvX, recvPt: recvPt}
			if litEnv != nil && recvX == nil {
				// the literal came out of a closure factory: the factory's bindings sit between the
				// literal and the frame of the call
				litEnv.parent = f.regionOf[b]
				reg.parent = litEnv
			}
			b.Nodes = b.Nodes[:i:i]
			entry := sub.G.Blocks[0]
			b.Succs = []*cfg.Block{entry}
			if f.regionEntry == nil {
				f.regionEntry = map[*cfg.Block]*region{}
			}
			for k, v := range sub.regionEntry {
				f.regionEntry[k] = v
			}
			f.regionEntry[entry] = reg
			// error correlation: if the continuation is `err := helper(...)` followed at once by the
			// nil test of that error, a return of the helper that is known to hand back a non-nil
			// (nil) error continues on the failure (success) branch only. Without this, the expanded
			// graph would contain the infeasible path "helper failed, caller saw no error".
			var tailOK, tailFail *cfg.Block
			boolCorr := false // tailOK = the result is true, tailFail = the result is false
			corrIdx := 0      // which result of the helper the correlated variable receives
			if len(tail.Nodes) == 1 && len(tail.Succs) == 2 {
				// boolean correlation, direct form: `if helper(...)` / `if !helper(...)`
				if cond, isExpr := tail.Nodes[0].(ast.Expr); isExpr {
					c, neg := ast.Unparen(cond), false
					for {
						if u, ok := c.(*ast.UnaryExpr); ok && u.Op == token.NOT {
							neg, c = !neg, ast.Unparen(u.X)
							continue
						}
						break
					}
					if bt, ok := f.Info.TypeOf(call).Underlying().(*types.Basic); ok && c == ast.Expr(call) && bt.Info()&types.IsBoolean != 0 {
						sink := &cfg.Block{Kind: cfg.KindUnreachable, Live: false}
						trueSucc, falseSucc := tail.Succs[0], tail.Succs[1]
						if neg {
							trueSucc, falseSucc = tail.Succs[1], tail.Succs[0]
						}
						mk := func(val bool) *cfg.Block {
							nb := &cfg.Block{Nodes: tail.Nodes, Kind: tail.Kind, Live: true, Stmt: tail.Stmt}
							t, fl := sink, sink
							switch {
							case val && !neg:
								t = trueSucc
							case val && neg:
								fl = trueSucc
							case !val && !neg:
								fl = falseSucc
							default:
								t = falseSucc
							}
							nb.Succs = []*cfg.Block{t, fl}
							f.expandedHead[nb] = true
							f.regionOf[nb] = f.regionOf[b]
							return nb
						}
						tailOK, tailFail = mk(true), mk(false)
						boolCorr = true
						f.G.Blocks = append(f.G.Blocks, tailOK, tailFail, sink)
					}
				}
			}
			// the result variables of the call must not be reassigned between the call and the test
			// (statements in between that leave them alone, e.g. an unlock, are fine)
			straight := len(tail.Nodes) >= 2 && len(tail.Succs) == 2
			if as0, isAs := tail.Nodes[0].(*ast.AssignStmt); straight && isAs {
				res := map[types.Object]bool{}
				for _, l := range as0.Lhs {
					if o := objOfIdent(f.Info, l); o != nil {
						res[o] = true
					}
				}
				for _, mid := range tail.Nodes[1 : len(tail.Nodes)-1] {
					inspectNoLit(mid, func(m ast.Node) bool {
						switch x := m.(type) {
						case *ast.AssignStmt:
							for _, l := range x.Lhs {
								if res[objOfIdent(f.Info, l)] {
									straight = false
								}
							}
						case *ast.UnaryExpr:
							if x.Op == token.AND && res[objOfIdent(f.Info, x.X)] {
								straight = false
							}
						}
						return straight
					})
				}
			}
			condIdx := len(tail.Nodes) - 1
			if straight {
				if cond, isExpr := tail.Nodes[condIdx].(ast.Expr); isExpr {
					// boolean correlation: `v := helper(...)` followed (see above) by `if v` / `if !v`
					{
						c, neg := ast.Unparen(cond), false
						for {
							if u, ok := c.(*ast.UnaryExpr); ok && u.Op == token.NOT {
								neg, c = !neg, ast.Unparen(u.X)
								continue
							}
							break
						}
						if as, isAs := tail.Nodes[0].(*ast.AssignStmt); isAs && len(as.Rhs) == 1 {
							// the tested variable may be one result of a tuple: `n, v, ok := helper(); if !ok`
							li := -1
							for k, l := range as.Lhs {
								if v := objOfIdent(f.Info, l); v != nil && objOfIdentRaw(f.Info, c) == v {
									li = k
								}
							}
							if li >= 0 {
								corrIdx = li
							}
							if v := objOfIdent(f.Info, as.Lhs[max(li, 0)]); li >= 0 && v != nil {
								if bt, ok := v.Type().Underlying().(*types.Basic); ok && bt.Kind() == types.Bool {
									sink := &cfg.Block{Kind: cfg.KindUnreachable, Live: false}
									trueSucc, falseSucc := tail.Succs[0], tail.Succs[1]
									if neg {
										trueSucc, falseSucc = tail.Succs[1], tail.Succs[0]
									}
									mk := func(val bool) *cfg.Block {
										nb := &cfg.Block{Nodes: tail.Nodes, Kind: tail.Kind, Live: true, Stmt: tail.Stmt}
										// successor order is that of the condition as written
										t, fl := sink, sink
										switch {
										case val && !neg:
											t = trueSucc
										case val && neg:
											fl = trueSucc
										case !val && !neg:
											fl = falseSucc
										default:
											t = falseSucc
										}
										nb.Succs = []*cfg.Block{t, fl}
										f.expandedHead[nb] = true
										f.regionOf[nb] = f.regionOf[b]
										return nb
									}
									tailOK, tailFail = mk(true), mk(false)
									boolCorr = true
									f.G.Blocks = append(f.G.Blocks, tailOK, tailFail, sink)
								}
							}
						}
					}
				}
				if cond, isExpr := tail.Nodes[condIdx].(ast.Expr); isExpr && !boolCorr {
					if x, nonNilOnTrue, isTest := nilTest(f.Info, cond); isTest {
						if as, isAs := tail.Nodes[0].(*ast.AssignStmt); isAs && len(as.Lhs) >= 1 && objOfIdent(f.Info, as.Lhs[len(as.Lhs)-1]) != nil && objOfIdent(f.Info, as.Lhs[len(as.Lhs)-1]) == objOfIdent(f.Info, x) {
							sink := &cfg.Block{Kind: cfg.KindUnreachable, Live: false}
							okSucc, failSucc := tail.Succs[1], tail.Succs[0]
							if !nonNilOnTrue {
								okSucc, failSucc = tail.Succs[0], tail.Succs[1]
							}
							mk := func(ok bool) *cfg.Block {
								nb := &cfg.Block{Nodes: tail.Nodes, Kind: tail.Kind, Live: true, Stmt: tail.Stmt}
								t, fl := sink, sink // successor on the true / false edge of the test
								switch {
								case ok && nonNilOnTrue:
									fl = okSucc
								case ok && !nonNilOnTrue:
									t = okSucc
								case !ok && nonNilOnTrue:
									t = failSucc
								default:
									fl = failSucc
								}
								nb.Succs = []*cfg.Block{t, fl}
								f.expandedHead[nb] = true
								f.regionOf[nb] = f.regionOf[b]
								return nb
							}
							tailOK, tailFail = mk(true), mk(false)
							f.G.Blocks = append(f.G.Blocks, tailOK, tailFail, sink)
						}
					}
				}
			}
			contFor := func(sub *FuncCFG, cb *cfg.Block, rs *ast.ReturnStmt) *cfg.Block {
				if tailOK == nil || len(rs.Results) == 0 {
					return tail
				}
				last := errorPassthrough(f.Info, rs.Results[len(rs.Results)-1])
				if boolCorr {
					if corrIdx < len(rs.Results) {
						if id, ok := ast.Unparen(rs.Results[corrIdx]).(*ast.Ident); ok {
							switch id.Name {
							case "true":
								return tailOK
							case "false":
								return tailFail
							}
						}
					}
					return tail
				}
				if !types.Identical(f.Info.TypeOf(last), errorType) && !isNil(f.Info, last) {
					return tail
				}
				switch {
				case isNil(f.Info, last):
					return tailOK
				case func() bool {
					c, ok := ast.Unparen(last).(*ast.CallExpr)
					return ok && isNonNilErrorConstructor(calleeShort(f.Info, c))
				}():
					return tailFail
				}
				if v := objOfIdent(f.Info, last); v != nil {
					var failEdges []Edge
					sub.forEachEdgeFact(func(e Edge, _ *cfg.Block, ft fact) {
						if x, nonNilOnTrue, ok := nilTest(f.Info, ft.Atom); ok && objOfIdent(f.Info, x) == v && nonNilOnTrue == ft.Pol {
							failEdges = append(failEdges, e)
						}
					})
					if len(failEdges) > 0 {
						if _, only := sub.OnlyThroughEdges(Point{cb, len(cb.Nodes) - 1}, failEdges); only {
							return tailFail
						}
					}
				}
				return tail
			}
			// classify the returns before the callee graph is rewired
			cont := map[*cfg.Block]*cfg.Block{}
			for _, cb := range sub.G.Blocks {
				if cb.Live && len(cb.Succs) == 0 && len(cb.Nodes) > 0 {
					if rs, ok := cb.Nodes[len(cb.Nodes)-1].(*ast.ReturnStmt); ok {
						cont[cb] = contFor(sub, cb, rs)
					}
				}
			}
			for _, cb := range sub.G.Blocks {
				if !cb.Live {
					// a dead block can still be the anchor of a nested call (the generic continuation of
					// a helper all of whose returns were classified): keep its region for paramArg
					if inner := sub.regionOf[cb]; inner != nil {
						root := inner
						for root.parent != nil && root != reg {
							root = root.parent
						}
						if root != reg {
							root.parent = reg
						}
						f.regionOf[cb] = inner
					} else {
						f.regionOf[cb] = reg
					}
					f.G.Blocks = append(f.G.Blocks, cb) // stays dead; kept so that outer levels see its region
					continue
				}
				if len(cb.Succs) == 0 {
					if k := len(cb.Nodes); k > 0 {
						if rs, ok := cb.Nodes[k-1].(*ast.ReturnStmt); ok {
							nodes := append([]ast.Node{}, cb.Nodes[:k-1]...)
							reg.rets = append(reg.rets, retInfo{rs.Results, Point{cb, len(nodes)}})
							for _, res := range rs.Results {
								nodes = append(nodes, res)
							}
							cb.Nodes = nodes
							cb.Succs = []*cfg.Block{cont[cb]}
						} else if sub.isExitBlock(cb) {
							cb.Succs = []*cfg.Block{tail}
						}
					} else if sub.isExitBlock(cb) {
						cb.Succs = []*cfg.Block{tail}
					}
				}
				if sub.expandedHead[cb] {
					f.expandedHead[cb] = true
				}
				if inner := sub.regionOf[cb]; inner != nil {
					// a region of a nested expansion: hook its root under reg
					// walk up to the top of the nested expansion - or to reg itself when an earlier block
					// of this splice has hooked the chain already (reg can have a parent of its own)
					root := inner
					for steps := 0; root.parent != nil && root != reg; steps++ {
						if steps > 64 {
							panic("hivecheck: region parent cycle at " + f.P.posStr(call.Pos()) + " splicing " + fd.Name.Name)
						}
						root = root.parent
					}
					if root != reg {
						root.parent = reg
					}
					f.regionOf[cb] = inner
				} else {
					f.regionOf[cb] = reg
				}
				f.G.Blocks = append(f.G.Blocks, cb)
			}
			tailUsed := false
			for _, cb := range sub.G.Blocks {
				for _, sc := range cb.Succs {
					if sc == tail {
						tailUsed = true
					}
				}
			}
			if !tailUsed && tailOK != nil {
				tail.Live = false
			}
			f.G.Blocks = append(f.G.Blocks, tail)
			if fn != nil {
				f.Expanded = append(f.Expanded, funcKeyOf(fn))
			} else {
				f.Expanded = append(f.Expanded, "func literal at "+f.P.posStr(fd.Body.Pos()))
			}
			work = append(work, tail)
			// the spliced blocks are scanned once more in this frame: a call of one of the helper's
			// function-typed parameters can be bound to a literal only now that the call is known
			if f.rescan == nil {
				f.rescan = map[*cfg.Block]bool{}
			}
			for _, cb := range sub.G.Blocks {
				if cb.Live {
					f.rescan[cb] = true
					work = append(work, cb)
				}
			}
			break
		}
	}
	// blocks that lost their last predecessor (e.g. the generic continuation when every return of
	// the helper was classified) are dead
	reach := map[*cfg.Block]bool{}
	var stack []*cfg.Block
	if len(f.G.Blocks) > 0 {
		stack = append(stack, f.G.Blocks[0])
	}
	for len(stack) > 0 {
		b := stack[len(stack)-1]
		stack = stack[:len(stack)-1]
		if reach[b] || !b.Live {
			continue
		}
		reach[b] = true
		stack = append(stack, b.Succs...)
	}
	for i, b := range f.G.Blocks {
		b.Index = int32(i)
		if b.Live && !reach[b] && len(f.Expanded) > 0 {
			b.Live = false
		}
	}
}

func funcKeyOf(fn *types.Func) string {
	if rt := namedOfRecv(fn); rt != nil {
		return rt.Obj().Name() + "." + funcName(fn)
	}
	return funcName(fn)
}

// ErrEdgesDeep: like ErrEdges, but when the call sits in an expanded helper that hands its error
// up (the error is not tested inside the helper), the test of the enclosing helper call counts:
// success/failure of `if err := s.writeMark(v); err != nil` decides store.Set inside writeMark.
func (f *FuncCFG) ErrEdgesDeep(call *ast.CallExpr) (success, failure []Edge) {
	success, failure = f.ErrEdges(call)
	if len(success)+len(failure) > 0 {
		return
	}
	pt, ok := f.PointOf(call)
	if !ok {
		return
	}
	for reg := f.regionOf[pt.B]; reg != nil; reg = reg.parent {
		success, failure = f.ErrEdges(reg.call)
		if len(success)+len(failure) > 0 {
			return
		}
	}
	return
}

// At: does point a denote the same program point as b? Expansion can place one statement in
// several blocks (the continuation after a helper call is split by the helper's outcome).
func (f *FuncCFG) At(a, b Point) bool {
	if a == b {
		return true
	}
	na, nb := f.nodeAt(a), f.nodeAt(b)
	return na != nil && na == nb
}

// Reachable: can pt be reached from the function entry at all? (after helper expansion with
// error correlation some statements are dead, e.g. the failure branch after a helper that
// always returns nil)
func (f *FuncCFG) Reachable(pt Point) bool {
	_, found := f.PathFromEntryAvoiding(pt, nil, nil)
	return found
}

// FindOwn is Find restricted to the statements of the analysed function itself (not those of
// expanded helpers).
func (f *FuncCFG) FindOwn(pred func(ast.Node) bool) []Point {
	var out []Point
	for _, pt := range f.Find(pred) {
		if f.regionOf[pt.B] == nil {
			out = append(out, pt)
		}
	}
	return out
}

// callableBody returns the body of a function value written as a function literal, a named
// function or a method value of the analysed packages (nil otherwise).
func callableBody(p *Prog, info *types.Info, e ast.Expr) (*ast.BlockStmt, token.Pos) {
	switch x := ast.Unparen(e).(type) {
	case *ast.FuncLit:
		return x.Body, x.Pos()
	case *ast.Ident, *ast.SelectorExpr:
		var fn *types.Func
		if id := selIdent(x.(ast.Expr)); id != nil {
			fn, _ = info.Uses[id].(*types.Func)
		}
		if fn != nil {
			if fd := p.decls().byFunc[fn.Origin()]; fd != nil {
				return fd.Body, fd.Pos()
			}
		}
	}
	return nil, token.NoPos
}

func (f *FuncCFG) regionByCall(c *ast.CallExpr) *region {
	seen := map[*region]bool{}
	for _, reg := range f.regionOf {
		for r := reg; r != nil && !seen[r]; r = r.parent {
			seen[r] = true
			if r.call == c && !r.pseudo {
				return r
			}
		}
	}
	return nil
}

// Effects renders the state-changing statements of the (expanded) graph with resolved operands:
// "lhs=rhs", "x++", "x--", "return a,b". Helper parameters and temporaries are looked through, so
// the list does not depend on whether a piece of the operation lives in a helper.
func (f *FuncCFG) Effects() []string {
	var out []string
	for _, b := range f.G.Blocks {
		if !b.Live {
			continue
		}
		for i, nd := range b.Nodes {
			pt := Point{b, i}
			switch x := nd.(type) {
			case *ast.AssignStmt:
				if x.Tok == token.DEFINE {
					continue
				}
				for li, l := range x.Lhs {
					rhs := ""
					if li < len(x.Rhs) && len(x.Lhs) == len(x.Rhs) {
						rhs = f.KeyAt(x.Rhs[li], pt)
					} else if len(x.Rhs) == 1 {
						rhs = f.KeyAt(x.Rhs[0], pt)
					}
					op := "="
					if x.Tok != token.ASSIGN {
						op = x.Tok.String()
					}
					out = append(out, f.KeyAt(l, pt)+op+rhs)
				}
			case *ast.IncDecStmt:
				out = append(out, f.KeyAt(x.X, pt)+x.Tok.String())
			case *ast.ReturnStmt:
				var rs []string
				for _, e := range x.Results {
					rs = append(rs, f.KeyAt(e, pt))
				}
				out = append(out, "return "+strings.Join(rs, ","))
			}
		}
	}
	return out
}

// AtomCall: what a boolean/result atom stands for - result #idx of a call - written as the call
// itself, as lo.ReturnN(call), or as a variable bound to one of the call's results.
func (f *FuncCFG) AtomCall(e ast.Expr, pt Point) (*ast.CallExpr, int) {
	e = ast.Unparen(e)
	if c, ok := e.(*ast.CallExpr); ok {
		k := rawKey(c.Fun)
		for n := 1; n <= 3; n++ {
			if strings.HasSuffix(k, fmt.Sprintf("Return%d", n)) && len(c.Args) == 1 {
				if ic, ok := ast.Unparen(c.Args[0]).(*ast.CallExpr); ok {
					return ic, n - 1
				}
			}
		}
		return c, 0
	}
	if id, ok := e.(*ast.Ident); ok {
		obj := f.Info.Uses[id]
		if obj == nil {
			return nil, 0
		}
		defs, fromEntry := f.ReachingDefs(pt, obj)
		if len(defs) == 1 && !fromEntry {
			switch x := f.nodeAt(defs[0].At).(type) {
			case *ast.AssignStmt:
				if len(x.Rhs) == 1 {
					if c, ok := ast.Unparen(x.Rhs[0]).(*ast.CallExpr); ok {
						for i, l := range x.Lhs {
							if objOfIdent(f.Info, l) == obj {
								return c, i
							}
						}
					}
				}
			}
		}
	}
	return nil, 0
}

// ReturnsUnder enumerates, for one truth assignment of named atomic conditions, the result keys
// of the return statements reachable from the entry when every branch whose condition is
// decided by the assignment takes only the decided side (undecided branches take both). It is a
// finite case split over boolean atoms - the way to judge a guard such as `a || b && c` whose
// short-circuit structure go/cfg does not expose - independent of how the guard is spelled
// (one condition, nested ifs, a switch).
func (f *FuncCFG) ReturnsUnder(assign map[string]bool) map[string]bool {
	out := map[string]bool{}
	type retsTaken map[*region]*retInfo
	seen := map[string]bool{}
	// the value of a condition at pt: by the assignment; a call of a spliced helper stands for the
	// result expression of the return taken on this path (recursively)
	var eval func(e ast.Expr, pt Point, taken retsTaken, depth int) (bool, bool)
	eval = func(e ast.Expr, pt Point, taken retsTaken, depth int) (bool, bool) {
		e = ast.Unparen(e)
		if depth <= 0 {
			return false, false
		}
		switch x := e.(type) {
		case *ast.UnaryExpr:
			if x.Op == token.NOT {
				v, k := eval(x.X, pt, taken, depth)
				return !v, k
			}
		case *ast.BinaryExpr:
			if x.Op == token.LAND || x.Op == token.LOR {
				a, ka := eval(x.X, pt, taken, depth)
				b, kb := eval(x.Y, pt, taken, depth)
				if x.Op == token.LAND {
					switch {
					case ka && !a, kb && !b:
						return false, true
					case ka && kb:
						return true, true
					}
					return false, false
				}
				switch {
				case ka && a, kb && b:
					return true, true
				case ka && kb:
					return false, true
				}
				return false, false
			}
		case *ast.CallExpr:
			if reg := f.regionByCall(x); reg != nil {
				if rt := taken[reg]; rt != nil && len(rt.results) == 1 {
					return eval(rt.results[0], rt.pt, taken, depth-1)
				}
			}
		}
		if v, k := f.evalAt(e, pt, assign, 3); k {
			return v, true
		}
		return evalCond(e, assign)
	}
	var walk func(b *cfg.Block, taken retsTaken)
	walk = func(b *cfg.Block, taken retsTaken) {
		if !b.Live {
			return
		}
		fp := fmt.Sprintf("%p", b)
		for r, t := range taken {
			fp += fmt.Sprintf("|%p:%p", r, t)
		}
		if seen[fp] {
			return
		}
		seen[fp] = true
		for i, n := range b.Nodes {
			if reg := f.regionOf[b]; reg != nil {
				for ri := range reg.rets {
					if reg.rets[ri].pt.B == b && reg.rets[ri].pt.I == i {
						nt := retsTaken{}
						for k, v := range taken {
							nt[k] = v
						}
						nt[reg] = &reg.rets[ri]
						taken = nt
					}
				}
			}
			if rs, ok := n.(*ast.ReturnStmt); ok && f.regionOf[b] == nil {
				var ks []string
				for _, res := range rs.Results {
					k := exprKey(res)
					// `return helper(...)` with the helper spliced: the literal it returned on this path
					if c, isCall := ast.Unparen(res).(*ast.CallExpr); isCall {
						if reg := f.regionByCall(c); reg != nil {
							if rt := taken[reg]; rt != nil && len(rt.results) == 1 {
								if v, known := eval(rt.results[0], rt.pt, taken, 4); known {
									k = fmt.Sprint(v)
								}
							}
						}
					}
					ks = append(ks, k)
				}
				out[strings.Join(ks, ",")] = true
			}
		}
		c := condOf(b)
		if c != nil && len(b.Succs) == 2 {
			if tag, ok := caseTagOf[c]; ok {
				c = &ast.BinaryExpr{X: tag, Op: token.EQL, Y: c}
			}
			if v, known := eval(c, Point{b, len(b.Nodes) - 1}, taken, 4); known {
				if v {
					walk(b.Succs[0], taken)
				} else {
					walk(b.Succs[1], taken)
				}
				return
			}
		}
		for _, sc := range b.Succs {
			walk(sc, taken)
		}
	}
	walk(f.G.Blocks[0], retsTaken{})
	return out
}

// IsVar: does e (evaluated at pt) denote the variable v - directly, or as a parameter of an
// expanded helper that received v?
// VarEdges: the branch edges on which variable v - under its own name, or as the parameter of a
// spliced helper it was handed to - is known true / false.
func (f *FuncCFG) VarEdges(v types.Object) (trueEdges, falseEdges []Edge) {
	f.forEachEdgeFact(func(e Edge, b *cfg.Block, ft fact) {
		if !f.IsVar(ft.Atom, Point{b, len(b.Nodes) - 1}, v) {
			return
		}
		if ft.Pol {
			trueEdges = append(trueEdges, e)
		} else {
			falseEdges = append(falseEdges, e)
		}
	})
	return
}

func (f *FuncCFG) IsVar(e ast.Expr, pt Point, v types.Object) bool {
	for steps := 0; steps < 8; steps++ {
		o := objOfIdent(f.Info, e)
		if o == nil {
			return false
		}
		if o == v {
			return true
		}
		arg, cpt, ok := f.paramArg(o, pt)
		if !ok {
			return false
		}
		e, pt = arg, cpt
	}
	return false
}

// evalCond evaluates a boolean expression under a truth assignment of atoms (keys are canonical
// expression keys or normalised relations); known=false if an atom is not assigned.
func evalCond(e ast.Expr, assign map[string]bool) (val, known bool) {
	e = ast.Unparen(e)
	if under, ok := astSubst[e]; ok {
		return evalCond(under, assign)
	}
	switch x := e.(type) {
	case *ast.UnaryExpr:
		if x.Op == token.NOT {
			v, k := evalCond(x.X, assign)
			return !v, k
		}
	case *ast.BinaryExpr:
		switch x.Op {
		case token.LAND:
			a, ka := evalCond(x.X, assign)
			b, kb := evalCond(x.Y, assign)
			switch {
			case ka && !a, kb && !b:
				return false, true
			case ka && kb:
				return a && b, true
			}
			return false, false
		case token.LOR:
			a, ka := evalCond(x.X, assign)
			b, kb := evalCond(x.Y, assign)
			switch {
			case ka && a, kb && b:
				return true, true
			case ka && kb:
				return a || b, true
			}
			return false, false
		}
		if rel, ok := relOf(x); ok {
			for k, v := range assign {
				if k == rel.String() {
					return v, true
				}
				if k == negRel(rel).String() {
					return !v, true
				}
			}
		}
	}
	if v, ok := assign[exprKey(e)]; ok {
		return v, true
	}
	return false, false
}

// ValuesUnder: the possible values (as canonical keys) of expression e at pt when the branches
// decided by the truth assignment take only their decided side. Variables are followed through
// the definitions that reach pt along such paths (tuple assignments included); lo.Cond(c, a, b)
// is a or b when c is decided. The result is a finite set of symbolic values.
func (f *FuncCFG) ValuesUnder(e ast.Expr, pt Point, assign map[string]bool) []string {
	set := map[string]bool{}
	f.valuesUnder(e, pt, assign, 5, set)
	var out []string
	for k := range set {
		out = append(out, k)
	}
	sort.Strings(out)
	return out
}

func (f *FuncCFG) valuesUnder(e ast.Expr, pt Point, assign map[string]bool, depth int, out map[string]bool) {
	e = ast.Unparen(e)
	if depth <= 0 {
		out[exprKey(e)] = true
		return
	}
	switch x := e.(type) {
	case *ast.CallExpr:
		if strings.HasSuffix(rawKey(x.Fun), "lo.Cond") && len(x.Args) == 3 {
			if v, known := evalCond(x.Args[0], assign); known {
				if v {
					f.valuesUnder(x.Args[1], pt, assign, depth-1, out)
				} else {
					f.valuesUnder(x.Args[2], pt, assign, depth-1, out)
				}
				return
			}
			f.valuesUnder(x.Args[1], pt, assign, depth-1, out)
			f.valuesUnder(x.Args[2], pt, assign, depth-1, out)
			return
		}
	case *ast.BinaryExpr:
		l, r := map[string]bool{}, map[string]bool{}
		f.valuesUnder(x.X, pt, assign, depth-1, l)
		f.valuesUnder(x.Y, pt, assign, depth-1, r)
		for a := range l {
			for b := range r {
				out["("+a+x.Op.String()+b+")"] = true
			}
		}
		return
	case *ast.UnaryExpr:
		in := map[string]bool{}
		f.valuesUnder(x.X, pt, assign, depth-1, in)
		for a := range in {
			out[x.Op.String()+a] = true
		}
		return
	case *ast.Ident:
		obj, _ := f.Info.Uses[x].(*types.Var)
		if obj == nil {
			break
		}
		// forward walk over decided paths, tracking the latest definition of obj
		type state struct {
			b   *cfg.Block
			def ast.Expr
			ret *retInfo
		}
		seen := map[state]bool{}
		found := false
		var walk func(b *cfg.Block, i int, def ast.Expr, ret *retInfo)
		walk = func(b *cfg.Block, i int, def ast.Expr, ret *retInfo) {
			if !b.Live {
				return
			}
			if i == 0 {
				if seen[state{b, def, ret}] {
					return
				}
				seen[state{b, def, ret}] = true
			}
			for ; i < len(b.Nodes); i++ {
				if f.At(Point{b, i}, pt) {
					found = true
					if def == nil {
						out[x.Name] = true
					} else {
						f.valuesUnder(def, Point{b, i}, assign, depth-1, out)
					}
					return
				}
				// the return of a spliced helper taken on this path
				if reg := f.regionOf[b]; reg != nil {
					for ri := range reg.rets {
						if reg.rets[ri].pt.B == b && reg.rets[ri].pt.I == i {
							ret = &reg.rets[ri]
						}
					}
				}
				switch st := b.Nodes[i].(type) {
				case *ast.AssignStmt:
					for li, l := range st.Lhs {
						if objOfIdentRaw(f.Info, l) != obj {
							continue
						}
						if len(st.Lhs) == len(st.Rhs) {
							def = st.Rhs[li]
							// the single result of a spliced helper: what the return taken on this path hands back
							if c, isCall := ast.Unparen(st.Rhs[li]).(*ast.CallExpr); isCall && len(st.Rhs) == 1 && ret != nil && len(ret.results) == 1 {
								if reg := f.regionByCall(c); reg != nil {
									for ri := range reg.rets {
										if &reg.rets[ri] == ret {
											def = ret.results[0]
										}
									}
								}
							}
						} else if len(st.Rhs) == 1 && ret != nil && li < len(ret.results) {
							// tuple assignment from a spliced helper: the li-th result of the return taken
							if reg := f.regionByCall(stmtLevelCall(st)); reg != nil {
								for ri := range reg.rets {
									if &reg.rets[ri] == ret {
										def = ret.results[li]
									}
								}
							}
						}
					}
				case *ast.ValueSpec:
					for ni, nm := range st.Names {
						if f.Info.Defs[nm] == obj && ni < len(st.Values) {
							def = st.Values[ni]
						}
					}
				}
			}
			if c := condOf(b); c != nil {
				if tag, ok := caseTagOf[c]; ok {
					c = &ast.BinaryExpr{X: tag, Op: token.EQL, Y: c}
				}
				if v, known := evalCond(c, assign); known {
					if v {
						walk(b.Succs[0], 0, def, ret)
					} else {
						walk(b.Succs[1], 0, def, ret)
					}
					return
				}
			}
			for _, sc := range b.Succs {
				walk(sc, 0, def, ret)
			}
		}
		walk(f.G.Blocks[0], 0, nil, nil)
		if found {
			return
		}
	}
	out[exprKey(e)] = true
}

// LoopBound describes what a loop iterates over, independent of its source form:
// "count:<key>" for `for range n`, `for i := range n`, `for i := 0; i < n; i++`,
// "chan:<key>" for `for v := range ch` and `for v, ok := <-ch; ok; v, ok = <-ch`,
// "range:<key>" for a range over a slice/map, "" otherwise.
func (f *FuncCFG) LoopBound(l loopInfo) string {
	// operands are rendered resolved at the loop head (helper parameters -> the caller's arguments)
	rawKey := func(e ast.Expr) string { return f.KeyAt(e, Point{l.Head, 0}) }
	switch st := l.Stmt.(type) {
	case *ast.RangeStmt:
		t := f.Info.TypeOf(st.X)
		if t != nil {
			switch u := t.Underlying().(type) {
			case *types.Basic:
				if u.Info()&types.IsInteger != 0 {
					return "count:" + rawKey(st.X)
				}
			case *types.Chan:
				return "chan:" + rawKey(st.X)
			}
		}
		return "range:" + rawKey(st.X)
	case *ast.ForStmt:
		if st.Cond == nil {
			return ""
		}
		if rel, ok := relOf(st.Cond); ok && rel.Op == "<" {
			return "count:" + rel.R
		}
		// for v, ok := <-ch; ok; v, ok = <-ch
		if as, ok := st.Init.(*ast.AssignStmt); ok && len(as.Rhs) == 1 {
			if u, ok := ast.Unparen(as.Rhs[0]).(*ast.UnaryExpr); ok && u.Op == token.ARROW {
				return "chan:" + rawKey(u.X)
			}
		}
	}
	return ""
}

// evalAt evaluates a condition at pt under a truth assignment of atoms. Atom keys are rendered by
// KeyAt (helper parameters and receivers resolved to the caller's expressions); a boolean local
// that is not assigned is followed through ValuesUnder (its value on the decided paths).
func (f *FuncCFG) evalAt(e ast.Expr, pt Point, assign map[string]bool, depth int) (val, known bool) {
	e = ast.Unparen(e)
	if under, ok := astSubst[e]; ok {
		return f.evalAt(under, pt, assign, depth)
	}
	switch x := e.(type) {
	case *ast.UnaryExpr:
		if x.Op == token.NOT {
			v, k := f.evalAt(x.X, pt, assign, depth)
			return !v, k
		}
	case *ast.BinaryExpr:
		switch x.Op {
		case token.LAND:
			a, ka := f.evalAt(x.X, pt, assign, depth)
			if ka && !a {
				return false, true
			}
			b, kb := f.evalAt(x.Y, pt, assign, depth)
			switch {
			case kb && !b && ka:
				return false, true
			case ka && kb:
				return a && b, true
			}
			return false, false
		case token.LOR:
			a, ka := f.evalAt(x.X, pt, assign, depth)
			if ka && a {
				return true, true
			}
			b, kb := f.evalAt(x.Y, pt, assign, depth)
			switch {
			case ka && kb:
				return a || b, true
			}
			return false, false
		}
		if rel, ok := relOfWith(x, func(y ast.Expr) string { return f.KeyAt(y, pt) }); ok {
			if v, has := assign[rel.String()]; has {
				return v, true
			}
			if v, has := assign[negRel(rel).String()]; has {
				return !v, true
			}
		}
	}
	if v, ok := assign[f.KeyAt(e, pt)]; ok {
		return v, true
	}
	if id, ok := e.(*ast.Ident); ok && depth > 0 {
		switch id.Name {
		case "true":
			return true, true
		case "false":
			return false, true
		}
		if bt, isB := f.Info.TypeOf(id).Underlying().(*types.Basic); isB && bt.Info()&types.IsBoolean != 0 {
			// a named guard `v := <expr>`: evaluate the expression where it was defined
			if obj, _ := f.Info.Uses[id].(*types.Var); obj != nil {
				if defs, fromEntry := f.ReachingDefs(pt, obj); len(defs) == 1 && !fromEntry && defs[0].Rhs != nil {
					if as, isAs := f.nodeAt(defs[0].At).(*ast.AssignStmt); !isAs || len(as.Lhs) == len(as.Rhs) {
						if _, isCall := ast.Unparen(defs[0].Rhs).(*ast.CallExpr); !isCall {
							if v, k := f.evalAt(defs[0].Rhs, defs[0].At, assign, depth-1); k {
								return v, true
							}
						}
					}
				}
			}
			vals := f.ValuesUnder(id, pt, assign)
			if len(vals) == 1 {
				switch vals[0] {
				case "true":
					return true, true
				case "false":
					return false, true
				}
			}
		}
	}
	return false, false
}

// PathUnder: is there a path from the entry to a node matching target that avoids every node
// matching avoid, when the branches decided by the assignment (evalAt) take only their decided
// side? Short-circuit conditions are evaluated left to right: a decided left operand of && / ||
// hides the right one (so `p == nil || *p` is not evaluated for *p when p is nil).
func (f *FuncCFG) PathUnder(assign map[string]bool, avoid, target func(ast.Node) bool, guardEdge ...func(facts []fact, pt Point) bool) ([]string, bool) {
	type item struct {
		b    *cfg.Block
		path []string
	}
	seen := map[*cfg.Block]bool{}
	var hit []string
	var walk func(b *cfg.Block, path []string) bool
	walk = func(b *cfg.Block, path []string) bool {
		if seen[b] || !b.Live {
			return false
		}
		seen[b] = true
		if len(b.Nodes) > 0 {
			path = append(append([]string{}, path...), f.P.posStr(b.Nodes[0].Pos()))
		}
		for _, n := range b.Nodes {
			blocked, found := false, false
			inspectNoLit(n, func(m ast.Node) bool {
				if avoid != nil && avoid(m) {
					blocked = true
				}
				if target(m) {
					found = true
				}
				return true
			})
			if blocked {
				return false
			}
			if found {
				hit = path
				return true
			}
		}
		if c := condOf(b); c != nil && len(b.Succs) == 2 {
			if tag, ok := caseTagOf[c]; ok {
				c = &ast.BinaryExpr{X: tag, Op: token.EQL, Y: c}
			}
			cpt := Point{b, len(b.Nodes) - 1}
			if v, known := f.evalAt(c, cpt, assign, 3); known {
				if v {
					return walk(b.Succs[0], path)
				}
				return walk(b.Succs[1], path)
			}
			if len(guardEdge) > 0 {
				// the facts an edge carries once the conjuncts decided by the assignment are dropped;
				// an edge the caller recognises as a guard edge is not crossed
				for si, br := range []bool{true, false} {
					if guardEdge[0](f.residualFacts(c, br, cpt, assign), cpt) {
						continue
					}
					if walk(b.Succs[si], path) {
						return true
					}
				}
				return false
			}
		}
		for _, sc := range b.Succs {
			if walk(sc, path) {
				return true
			}
		}
		return false
	}
	if walk(f.G.Blocks[0], nil) {
		return hit, true
	}
	return nil, false
}

// MapPath translates an access path (pathOf form, rooted at a variable "name@pos") that was
// computed inside a spliced helper at pt into the frame of the outermost function: a root that is
// the helper's receiver or a parameter is replaced by the path of the receiver expression /
// argument at the call, region by region outwards.
func (f *FuncCFG) MapPath(path string, pt Point) string {
	for reg := f.regionOf[pt.B]; reg != nil; reg = reg.parent {
		type bind struct {
			obj types.Object
			arg ast.Expr
		}
		var binds []bind
		if reg.fd.Recv != nil && len(reg.fd.Recv.List) == 1 && len(reg.fd.Recv.List[0].Names) == 1 {
			if reg.recvX != nil {
				binds = append(binds, bind{f.Info.Defs[reg.fd.Recv.List[0].Names[0]], reg.recvX})
			} else if se, ok := ast.Unparen(reg.call.Fun).(*ast.SelectorExpr); ok {
				binds = append(binds, bind{f.Info.Defs[reg.fd.Recv.List[0].Names[0]], se.X})
			}
		}
		i := 0
		for _, fl := range reg.fd.Type.Params.List {
			for _, nm := range fl.Names {
				if i < len(reg.call.Args) {
					binds = append(binds, bind{f.Info.Defs[nm], reg.call.Args[i]})
				}
				i++
			}
		}
		for _, b := range binds {
			if b.obj == nil {
				continue
			}
			tok := fmt.Sprintf("%s@%d", b.obj.Name(), b.obj.Pos())
			if path == tok || strings.HasPrefix(path, tok+".") {
				if ap, ok := pathOf(f.Info, b.arg); ok {
					path = ap + path[len(tok):]
				}
				break
			}
		}
	}
	return path
}

// splicedEverywhere: fd is a small unexported function or method whose every use in the package is
// a direct statement-level call (no method value, go or defer), so that newFuncCFG splices it into
// each caller; obligations about what happens inside it are then judged in the callers' graphs.
func splicedEverywhere(p *Prog, pkg string, fd *ast.FuncDecl) bool {
	if fd.Body == nil || fd.Name.IsExported() || p.Pkg(pkg) == nil {
		return false
	}
	info := p.Pkg(pkg).TypesInfo
	target, _ := info.Defs[fd.Name].(*types.Func)
	if target == nil {
		return false
	}
	if stmtCount(fd.Body) > expandMaxStmts && !(stmtCount(fd.Body) <= expandMaxStmtsSingle && p.singleCallSite(info, target)) {
		return false
	}
	n, ok := 0, true
	for _, caller := range p.AllFuncDecls(pkg) {
		if caller.Body == nil || caller == fd {
			continue
		}
		var stack []ast.Node
		ast.Inspect(caller.Body, func(nd ast.Node) bool {
			if nd == nil {
				stack = stack[:len(stack)-1]
				return true
			}
			stack = append(stack, nd)
			id, isId := nd.(*ast.Ident)
			if !isId {
				return true
			}
			fn, _ := info.Uses[id].(*types.Func)
			if fn == nil || fn.Origin() != target {
				return true
			}
			// the identifier must be the callee of a call that is a whole statement-level expression
			k := len(stack) - 2
			if k >= 0 {
				if se, isSel := stack[k].(*ast.SelectorExpr); isSel && se.Sel == id {
					k--
				}
			}
			if k < 1 {
				ok = false
				return true
			}
			call, isCall := stack[k].(*ast.CallExpr)
			if !isCall {
				ok = false
				return true
			}
			switch par := stack[k-1].(type) {
			case *ast.ExprStmt:
				n++
			case *ast.AssignStmt:
				if len(par.Rhs) == 1 && ast.Unparen(par.Rhs[0]) == ast.Expr(call) {
					n++
				} else {
					ok = false
				}
			case *ast.ReturnStmt:
				if len(par.Results) == 1 && ast.Unparen(par.Results[0]) == ast.Expr(call) {
					n++
				} else {
					ok = false
				}
			default:
				ok = false
			}
			return true
		})
	}
	return ok && n > 0
}

// RawCondEdges is CondEdges on the condition as written (modulo leading negations): no
// decomposition through helpers or temporaries. For rules about generated code, whose template
// spells the condition in one fixed way.
func (f *FuncCFG) RawCondEdges(match func(cond ast.Expr) bool) (trueEdges, falseEdges []Edge) {
	for _, b := range f.G.Blocks {
		if !b.Live || len(b.Succs) != 2 {
			continue
		}
		c := condOf(b)
		if c == nil {
			continue
		}
		neg := false
		for {
			c = ast.Unparen(c)
			if u, ok := c.(*ast.UnaryExpr); ok && u.Op == token.NOT {
				neg, c = !neg, u.X
				continue
			}
			break
		}
		if !match(c) {
			continue
		}
		t, fl := Edge{b, 0}, Edge{b, 1}
		if neg {
			t, fl = fl, t
		}
		trueEdges, falseEdges = append(trueEdges, t), append(falseEdges, fl)
	}
	return
}

// residualFacts: the atoms known on the true/false edge of cond when the sub-conditions decided by
// the assignment are taken as given: on the FALSE edge of `A && B` with A known true, B is false.
func (f *FuncCFG) residualFacts(cond ast.Expr, branch bool, pt Point, assign map[string]bool) []fact {
	e := ast.Unparen(cond)
	if under, ok := astSubst[e]; ok {
		return f.residualFacts(under, branch, pt, assign)
	}
	switch x := e.(type) {
	case *ast.UnaryExpr:
		if x.Op == token.NOT {
			return f.residualFacts(x.X, !branch, pt, assign)
		}
	case *ast.BinaryExpr:
		if x.Op == token.LAND || x.Op == token.LOR {
			neutral := x.Op == token.LAND // a conjunct known true / a disjunct known false drops out
			lv, lk := f.evalAt(x.X, pt, assign, 3)
			rv, rk := f.evalAt(x.Y, pt, assign, 3)
			switch {
			case lk && lv == neutral:
				return f.residualFacts(x.Y, branch, pt, assign)
			case rk && rv == neutral:
				return f.residualFacts(x.X, branch, pt, assign)
			}
			if (x.Op == token.LAND) == branch {
				return append(f.residualFacts(x.X, branch, pt, assign), f.residualFacts(x.Y, branch, pt, assign)...)
			}
			return nil
		}
	}
	var out []fact
	for _, ft := range f.expandBoolTemp(fact{e, branch}, pt, 3) {
		out = append(out, ft)
	}
	return out
}

// regionChain names the spliced helpers a block belongs to, innermost first (development aid).
func (f *FuncCFG) regionChain(b *cfg.Block) []string {
	var out []string
	for reg := f.regionOf[b]; reg != nil; reg = reg.parent {
		out = append(out, reg.fd.Name.Name)
	}
	return out
}

// boundLiteral: the function literal a called function VALUE is known to be - e is an identifier of
// a variable with exactly one definition (a literal), or of a parameter of a spliced helper whose
// argument is such a variable or a literal (followed through up to four hops).
func (f *FuncCFG) boundLiteral(e ast.Expr, pt Point) (*ast.FuncType, *ast.BlockStmt) {
	ft, body, _ := f.boundLiteralEnv(e, pt)
	return ft, body
}

// closureFactory: call is a call of a function of the analysed package whose whole body is
// `return func(...) {...}`: the literal it returns and the factory's declaration.
func closureFactory(p *Prog, info *types.Info, call *ast.CallExpr) (*ast.FuncLit, *ast.FuncDecl) {
	if p == nil {
		return nil, nil
	}
	fn := staticCallee(info, call)
	if fn == nil {
		return nil, nil
	}
	fd := p.decls().byFunc[fn.Origin()]
	if fd == nil || fd.Body == nil || p.decls().infoOf[fd] != info || len(fd.Body.List) != 1 {
		return nil, nil
	}
	rs, ok := fd.Body.List[0].(*ast.ReturnStmt)
	if !ok || len(rs.Results) != 1 {
		return nil, nil
	}
	lit, _ := ast.Unparen(rs.Results[0]).(*ast.FuncLit)
	if lit == nil {
		return nil, nil
	}
	return lit, fd
}

// boundLiteralEnv is boundLiteral that also looks through closure factories: a function value
// produced by `recv.factory(args)` is the literal the factory returns, with the factory's receiver
// and parameters bound to the call's receiver and arguments (env: a binding-only region).
func (f *FuncCFG) boundLiteralEnv(e ast.Expr, pt Point) (*ast.FuncType, *ast.BlockStmt, *region) {
	cur := e
	for hops := 0; hops < 5; hops++ {
		switch x := ast.Unparen(cur).(type) {
		case *ast.CallExpr:
			lit, fd := closureFactory(f.P, f.Info, x)
			if lit == nil {
				return nil, nil, nil
			}
			defPt := pt
			if dp, found := f.PointOf(x); found {
				defPt = dp
			}
			return lit.Type, lit.Body, &region{call: x, fd: fd, callPt: defPt, pseudo: true}
		case *ast.FuncLit:
			return x.Type, x.Body, nil
		case *ast.Ident:
			o, _ := f.Info.Uses[x].(*types.Var)
			if o == nil {
				return nil, nil, nil
			}
			if _, isFn := o.Type().Underlying().(*types.Signature); !isFn {
				return nil, nil, nil
			}
			if arg, apt, ok := f.paramArg(o, pt); ok {
				cur, pt = arg, apt
				continue
			}
			if rhs, ok := singleDef[o]; ok {
				cur = rhs
				continue
			}
			return nil, nil, nil
		default:
			return nil, nil, nil
		}
	}
	return nil, nil, nil
}

// boundMethodValue: e (a function value called at pt) is bound, through the parameters of spliced
// helpers, to one method value x.m: the method's declaration, and x with the point it was evaluated at.
func (f *FuncCFG) boundMethodValue(e ast.Expr, pt Point) (*ast.FuncDecl, *types.Func, ast.Expr, Point) {
	cur := e
	for hops := 0; hops < 5; hops++ {
		switch x := ast.Unparen(cur).(type) {
		case *ast.SelectorExpr:
			sel := f.Info.Selections[x]
			if sel == nil || sel.Kind() != types.MethodVal {
				return nil, nil, nil, Point{}
			}
			fn, _ := sel.Obj().(*types.Func)
			if fn == nil || f.P == nil {
				return nil, nil, nil, Point{}
			}
			fn = fn.Origin()
			fd := f.P.decls().byFunc[fn]
			if fd == nil || fd.Body == nil {
				return nil, nil, nil, Point{}
			}
			if _, isPath := pathOf(f.Info, x.X); !isPath {
				return nil, nil, nil, Point{}
			}
			return fd, fn, x.X, pt
		case *ast.Ident:
			o, _ := f.Info.Uses[x].(*types.Var)
			if o == nil {
				return nil, nil, nil, Point{}
			}
			if _, isFn := o.Type().Underlying().(*types.Signature); !isFn {
				return nil, nil, nil, Point{}
			}
			if arg, apt, ok := f.paramArg(o, pt); ok {
				cur, pt = arg, apt
				continue
			}
			return nil, nil, nil, Point{}
		default:
			return nil, nil, nil, Point{}
		}
	}
	return nil, nil, nil, Point{}
}

// EdgeFacts: the atoms known on the true/false edge of the branch that ends block b, decomposed
// through helpers and boolean temporaries (what forEachEdgeFact reports for that edge).
func (f *FuncCFG) EdgeFacts(b *cfg.Block, branch bool) []fact {
	c := condOf(b)
	if c == nil {
		return nil
	}
	type ek struct {
		b  *cfg.Block
		br bool
	}
	if f.factCache == nil {
		f.factCache = map[interface{}][]fact{}
	}
	if fs, ok := f.factCache[ek{b, branch}]; ok {
		return fs
	}
	f.noConsist++ // the searches made while computing facts are plain reachability
	defer func() { f.noConsist-- }()
	if tag, ok := caseTagOf[c]; ok {
		c = &ast.BinaryExpr{X: tag, Op: token.EQL, Y: c}
	}
	var out []fact
	for _, ft := range factsOn(c, branch) {
		out = append(out, f.expandBoolTemp(ft, Point{b, len(b.Nodes) - 1}, 3)...)
	}
	f.factCache[ek{b, branch}] = out
	return out
}

// originVal is one leaf expression a value may come from, with the point it is evaluated at.
type originVal struct {
	E  ast.Expr
	At Point
}

// Origins follows e (evaluated at pt) backwards through EVERY reaching definition, through the
// parameters of expanded helpers and through every return site of an expanded helper (the matching
// result of a tuple), down to the expressions that are not plain local variables. Resolve answers
// "what single expression is this"; Origins answers "which expressions can this value have come
// from" when there are several (a helper with one return per case). Only origins from which the use
// is reachable on a consistent path are returned.
func (f *FuncCFG) Origins(e ast.Expr, pt Point) []originVal {
	var out []originVal
	type key struct {
		e  ast.Expr
		pt Point
	}
	seen := map[key]bool{}
	var walk func(e ast.Expr, pt Point, depth int)
	walk = func(e ast.Expr, pt Point, depth int) {
		e = ast.Unparen(e)
		if seen[key{e, pt}] {
			return
		}
		seen[key{e, pt}] = true
		if depth <= 0 {
			out = append(out, originVal{e, pt})
			return
		}
		if c, isCall := e.(*ast.CallExpr); isCall && !f.CallsOpaque {
			if reg := f.regionByCall(c); reg != nil && len(reg.rets) > 0 && len(reg.rets[0].results) == 1 {
				for _, rt := range reg.rets {
					walk(rt.results[0], rt.pt, depth-1)
				}
				return
			}
		}
		id, ok := e.(*ast.Ident)
		if !ok {
			out = append(out, originVal{e, pt})
			return
		}
		obj, isVar := objOfIdentRaw(f.Info, id).(*types.Var)
		if !isVar {
			out = append(out, originVal{e, pt})
			return
		}
		defs, fromEntry := f.ReachingDefs(pt, obj)
		if fromEntry || len(defs) == 0 {
			if arg, cpt, ok := f.paramArg(obj, pt); ok {
				walk(arg, cpt, depth-1)
			} else {
				out = append(out, originVal{e, pt})
			}
		}
		for _, d := range defs {
			if d.Rhs == nil {
				out = append(out, originVal{e, pt})
				continue
			}
			as, isAs := f.nodeAt(d.At).(*ast.AssignStmt)
			if isAs && len(as.Rhs) == 1 && len(as.Lhs) > 1 && !f.CallsOpaque {
				if c, isCall := ast.Unparen(as.Rhs[0]).(*ast.CallExpr); isCall {
					if reg := f.regionByCall(c); reg != nil {
						li := -1
						for k, l := range as.Lhs {
							if objOfIdentRaw(f.Info, l) == obj {
								li = k
							}
						}
						okAll := li >= 0
						for _, rt := range reg.rets {
							if li >= len(rt.results) {
								okAll = false
							}
						}
						if okAll {
							for _, rt := range reg.rets {
								walk(rt.results[li], rt.pt, depth-1)
							}
							continue
						}
					}
				}
				out = append(out, originVal{d.Rhs, d.At})
				continue
			}
			walk(d.Rhs, d.At, depth-1)
		}
	}
	walk(e, pt, 8)
	var live []originVal
	for _, o := range out {
		if f.At(o.At, pt) {
			live = append(live, o)
			continue
		}
		if _, ok := f.reach(o.At, nil, func(q Point, atExit bool) bool { return !atExit && f.At(q, pt) }); ok {
			live = append(live, o)
		}
	}
	return live
}

// SameValue: a at apt and b at bpt denote the same value: equal resolved keys, and every plain
// variable either resolves to has the same reaching definitions at both points.
func (f *FuncCFG) SameValue(a ast.Expr, apt Point, b ast.Expr, bpt Point) bool {
	ra, rapt := f.Resolve(a, apt)
	rb, rbpt := f.Resolve(b, bpt)
	if f.KeyAt(ra, rapt) != f.KeyAt(rb, rbpt) {
		return false
	}
	ida, okA := ast.Unparen(ra).(*ast.Ident)
	idb, okB := ast.Unparen(rb).(*ast.Ident)
	if okA != okB {
		return false
	}
	if !okA {
		// an impure expression is the same value only as the same evaluation
		if !pureExpr(f.Info, ra) {
			return ast.Unparen(ra) == ast.Unparen(rb)
		}
		return true
	}
	oa, ob := objOfIdentRaw(f.Info, ida), objOfIdentRaw(f.Info, idb)
	if oa == nil || oa != ob {
		return false
	}
	da, ea := f.ReachingDefs(rapt, oa)
	db, eb := f.ReachingDefs(rbpt, ob)
	if ea != eb || len(da) != len(db) {
		return false
	}
	set := map[Point]bool{}
	for _, d := range da {
		set[d.At] = true
	}
	for _, d := range db {
		if !set[d.At] {
			return false
		}
	}
	return true
}

// LocksHeld computes, on the graph with the helpers spliced in, the mutexes that are certainly held
// before every node (a must analysis: intersection at joins). Lock paths are given in the frame of
// the function itself (MapPath), so `t.mutex.Lock()` inside a spliced helper called on the receiver
// is the receiver's mutex. A deferred unlock in the function itself holds to the exit; a deferred
// unlock inside a spliced helper releases at that helper's return sites. entry: what the function
// is entered with (caller-holds helpers).
func (f *FuncCFG) LocksHeld(entry LockSet) func(pt Point) LockSet {
	if entry == nil {
		entry = LockSet{}
	}
	// releases at the return sites of helpers that deferred an unlock
	releaseAt := map[Point][]string{}
	for _, b := range f.G.Blocks {
		if !b.Live {
			continue
		}
		for i, nd := range b.Nodes {
			ds, ok := nd.(*ast.DeferStmt)
			if !ok {
				continue
			}
			op, path := lockOp(f.Info, ds.Call)
			if op != "Unlock" && op != "RUnlock" {
				continue
			}
			if reg := f.regionOf[b]; reg != nil {
				mp := f.MapPath(path, Point{b, i})
				for _, rt := range reg.rets {
					releaseAt[rt.pt] = append(releaseAt[rt.pt], mp)
				}
			}
		}
	}
	transfer := func(b *cfg.Block, i int, st LockSet) LockSet {
		for _, path := range releaseAt[Point{b, i}] {
			st = st.without(path)
		}
		es, ok := b.Nodes[i].(*ast.ExprStmt)
		if !ok {
			return st
		}
		c, ok := ast.Unparen(es.X).(*ast.CallExpr)
		if !ok {
			return st
		}
		op, path := lockOp(f.Info, c)
		if op == "" {
			return st
		}
		path = f.MapPath(path, Point{b, i})
		switch op {
		case "Lock":
			return st.with(path, ModeW)
		case "RLock":
			return st.with(path, ModeR)
		case "Unlock", "RUnlock":
			return st.without(path)
		}
		return st
	}
	in := map[*cfg.Block]LockSet{}
	if len(f.G.Blocks) == 0 {
		return func(Point) LockSet { return LockSet{} }
	}
	in[f.G.Blocks[0]] = entry
	work := []*cfg.Block{f.G.Blocks[0]}
	for iter := 0; len(work) > 0 && iter < 100000; iter++ {
		b := work[0]
		work = work[1:]
		if !b.Live {
			continue
		}
		st := in[b]
		for i := range b.Nodes {
			st = transfer(b, i, st)
		}
		// a return point at the very end of a block (index == len(nodes))
		for _, path := range releaseAt[Point{b, len(b.Nodes)}] {
			st = st.without(path)
		}
		for _, sc := range b.Succs {
			old, seen := in[sc]
			ns := st
			if seen {
				ns = meet(old, st)
			}
			if !seen || !sameSet(ns, old) {
				in[sc] = ns
				work = append(work, sc)
			}
		}
	}
	return func(pt Point) LockSet {
		st, ok := in[pt.B]
		if !ok {
			return LockSet{}
		}
		for i := 0; i < pt.I && i < len(pt.B.Nodes); i++ {
			st = transfer(pt.B, i, st)
		}
		return st
	}
}

// callbackBody is a function defined "here" and handed on as a value, in any of its spellings: a
// function literal, the literal a closure factory returns, or a method of a type of the analysed
// package used as a method value (the struct-with-method form of a closure: what the literal
// captured are the receiver's fields).
type callbackBody struct {
	Node  ast.Node // the literal, the factory call or the method-value selector
	Type  *ast.FuncType
	Body  *ast.BlockStmt
	Decl  *ast.FuncDecl // the method or factory declaration (nil for a plain literal)
	Recv  types.Object  // the method's receiver variable (method values only)
	RecvX ast.Expr      // the expression the method value was taken from (method values only)
}

// Params: the callback's own parameters.
func (cb callbackBody) Params(info *types.Info) []types.Object {
	var out []types.Object
	if cb.Type == nil || cb.Type.Params == nil {
		return nil
	}
	for _, fl := range cb.Type.Params.List {
		for _, nm := range fl.Names {
			out = append(out, info.Defs[nm])
		}
	}
	return out
}

// Outside: is o a variable the callback does not declare itself (captured state, or the receiver
// carrying the captured state)?
func (cb callbackBody) Outside(info *types.Info, o types.Object) bool {
	if o == nil {
		return false
	}
	for _, po := range cb.Params(info) {
		if po == o {
			return false
		}
	}
	return !(o.Pos() >= cb.Body.Pos() && o.Pos() <= cb.Body.End())
}

// callbacksIn lists the callbacks that occur in root (not nested ones: a callback's own body is not
// searched).
func callbacksIn(p *Prog, info *types.Info, root ast.Node) []callbackBody {
	var out []callbackBody
	callee := map[ast.Expr]bool{}
	ast.Inspect(root, func(n ast.Node) bool {
		if c, ok := n.(*ast.CallExpr); ok {
			fun := ast.Unparen(c.Fun)
			callee[fun] = true
			switch ix := fun.(type) {
			case *ast.IndexExpr:
				callee[ast.Unparen(ix.X)] = true
			case *ast.IndexListExpr:
				callee[ast.Unparen(ix.X)] = true
			}
		}
		return true
	})
	ast.Inspect(root, func(n ast.Node) bool {
		switch x := n.(type) {
		case *ast.FuncLit:
			out = append(out, callbackBody{Node: x, Type: x.Type, Body: x.Body})
			return false
		case *ast.CallExpr:
			if t := info.TypeOf(x); t != nil {
				if _, isSig := t.Underlying().(*types.Signature); isSig {
					if lit, fd := closureFactory(p, info, x); lit != nil {
						out = append(out, callbackBody{Node: x, Type: lit.Type, Body: lit.Body, Decl: fd})
						return false
					}
				}
			}
		case *ast.Ident:
			// a package-level function of the analysed package used as a value
			if callee[x] {
				return true
			}
			if fn, isFn := info.Uses[x].(*types.Func); isFn {
				if fd := p.decls().byFunc[fn.Origin()]; fd != nil && fd.Body != nil && fd.Recv == nil && p.decls().infoOf[fd] == info {
					out = append(out, callbackBody{Node: x, Type: fd.Type, Body: fd.Body, Decl: fd})
				}
			}
			return true
		case *ast.SelectorExpr:
			if callee[x] {
				return true
			}
			sel := info.Selections[x]
			if sel == nil || sel.Kind() != types.MethodVal {
				return true
			}
			fn, _ := sel.Obj().(*types.Func)
			if fn == nil {
				return true
			}
			fd := p.decls().byFunc[fn.Origin()]
			if fd == nil || fd.Body == nil || p.decls().infoOf[fd] != info {
				return true
			}
			out = append(out, callbackBody{Node: x, Type: fd.Type, Body: fd.Body, Decl: fd, Recv: recvObj(info, fd), RecvX: x.X})
			return false
		}
		return true
	})
	return out
}

// recvLiteral finds the composite literal a method value's receiver expression denotes: written in
// place (`(&T{...}).m`), bound once to a local of the enclosing function (`h := &T{...}; return h.m`),
// or produced by a constructor whose body is `return &T{...}` (then bind maps the constructor's
// parameters to the call's arguments).
func recvLiteral(p *Prog, info *types.Info, recvX ast.Expr, scope ast.Node) (lit *ast.CompositeLit, bind map[types.Object]ast.Expr) {
	litOf := func(e ast.Expr) *ast.CompositeLit {
		e = ast.Unparen(e)
		if u, ok := e.(*ast.UnaryExpr); ok && u.Op == token.AND {
			e = ast.Unparen(u.X)
		}
		cl, _ := e.(*ast.CompositeLit)
		return cl
	}
	var fromExpr func(e ast.Expr, depth int) (*ast.CompositeLit, map[types.Object]ast.Expr)
	fromExpr = func(e ast.Expr, depth int) (*ast.CompositeLit, map[types.Object]ast.Expr) {
		if cl := litOf(e); cl != nil {
			return cl, nil
		}
		switch x := ast.Unparen(e).(type) {
		case *ast.Ident:
			o := info.Uses[x]
			if o == nil || scope == nil || depth > 2 {
				return nil, nil
			}
			var rhs ast.Expr
			n := 0
			ast.Inspect(scope, func(m ast.Node) bool {
				switch y := m.(type) {
				case *ast.AssignStmt:
					for i, l := range y.Lhs {
						if id, ok := ast.Unparen(l).(*ast.Ident); ok && (info.Defs[id] == o || info.Uses[id] == o) {
							n++
							if len(y.Lhs) == len(y.Rhs) {
								rhs = y.Rhs[i]
							}
						}
					}
				case *ast.ValueSpec:
					for i, id := range y.Names {
						if info.Defs[id] == o {
							n++
							if i < len(y.Values) {
								rhs = y.Values[i]
							}
						}
					}
				}
				return true
			})
			if n == 1 && rhs != nil {
				return fromExpr(rhs, depth+1)
			}
		case *ast.CallExpr:
			fn := staticCallee(info, x)
			if fn == nil || p == nil {
				return nil, nil
			}
			fd := p.decls().byFunc[fn.Origin()]
			if fd == nil || fd.Body == nil || p.decls().infoOf[fd] != info || len(fd.Body.List) != 1 {
				return nil, nil
			}
			rs, ok := fd.Body.List[0].(*ast.ReturnStmt)
			if !ok || len(rs.Results) != 1 {
				return nil, nil
			}
			cl := litOf(rs.Results[0])
			if cl == nil {
				return nil, nil
			}
			b := map[types.Object]ast.Expr{}
			for i, po := range paramObjs(info, fd) {
				if po != nil && i < len(x.Args) {
					b[po] = x.Args[i]
				}
			}
			if ro := recvObj(info, fd); ro != nil && fd.Recv != nil {
				if se, ok := ast.Unparen(x.Fun).(*ast.SelectorExpr); ok {
					b[ro] = se.X
				}
			}
			return cl, b
		}
		return nil, nil
	}
	return fromExpr(recvX, 0)
}

// Captured: for a method-value callback, what the receiver field read by e (`recv.f`) was initialised
// with when the receiver struct was built - the variable the closure form would have captured. The
// result is an expression in the scope of the function that built the struct; nil if e is not such a
// read or the struct's construction is not visible.
func (cb callbackBody) Captured(p *Prog, info *types.Info, e ast.Expr, scope ast.Node) ast.Expr {
	if cb.Recv == nil || cb.RecvX == nil {
		return nil
	}
	se, ok := ast.Unparen(e).(*ast.SelectorExpr)
	if !ok || objOfIdent(info, se.X) != cb.Recv {
		return nil
	}
	lit, bind := recvLiteral(p, info, cb.RecvX, scope)
	if lit == nil {
		return nil
	}
	for _, el := range lit.Elts {
		kv, ok := el.(*ast.KeyValueExpr)
		if !ok {
			continue
		}
		if kid, ok := kv.Key.(*ast.Ident); ok && kid.Name == se.Sel.Name {
			v := kv.Value
			if o := objOfIdent(info, v); o != nil && bind != nil {
				if a, has := bind[o]; has {
					return a
				}
			}
			return v
		}
	}
	return nil
}

// fieldEverAssigned: is the struct field written anywhere in its package other than in a composite
// literal (assignment, ++/--, op=, or its address taken)? Fields that are not are fixed at
// construction: a read through a pointer to the constructed value yields the initialiser.
func (p *Prog) fieldEverAssigned(info *types.Info, fv *types.Var) bool {
	if p == nil {
		return true
	}
	if p.assignedFields == nil {
		p.assignedFields = map[*types.Info]map[*types.Var]bool{}
	}
	m, ok := p.assignedFields[info]
	if !ok {
		m = map[*types.Var]bool{}
		p.assignedFields[info] = m
		mark := func(e ast.Expr) {
			if se, ok := ast.Unparen(e).(*ast.SelectorExpr); ok {
				if sel := info.Selections[se]; sel != nil && sel.Kind() == types.FieldVal {
					if v, ok := sel.Obj().(*types.Var); ok {
						m[v.Origin()] = true
					}
				}
			}
		}
		for _, pk := range p.Pkgs {
			if pk.TypesInfo != info {
				continue
			}
			for _, file := range pk.Syntax {
				ast.Inspect(file, func(n ast.Node) bool {
					switch x := n.(type) {
					case *ast.AssignStmt:
						for _, l := range x.Lhs {
							mark(l)
						}
					case *ast.IncDecStmt:
						mark(x.X)
					case *ast.UnaryExpr:
						if x.Op == token.AND {
							mark(x.X)
						}
					case *ast.RangeStmt:
						if x.Key != nil {
							mark(x.Key)
						}
						if x.Value != nil {
							mark(x.Value)
						}
					}
					return true
				})
			}
		}
	}
	return m[fv.Origin()]
}

// constructorLiteral: call is a call of a function or method of the analysed package whose whole body
// is `return T{...}` or `return &T{...}`: the literal, whether it is returned by address, and the
// binding of the constructor's receiver and parameters to the call's receiver and arguments.
func constructorLiteral(p *Prog, info *types.Info, call *ast.CallExpr) (*ast.CompositeLit, bool, map[types.Object]ast.Expr) {
	if p == nil {
		return nil, false, nil
	}
	fn := staticCallee(info, call)
	if fn == nil {
		return nil, false, nil
	}
	fd := p.decls().byFunc[fn.Origin()]
	if fd == nil || fd.Body == nil || p.decls().infoOf[fd] != info || len(fd.Body.List) != 1 {
		return nil, false, nil
	}
	rs, ok := fd.Body.List[0].(*ast.ReturnStmt)
	if !ok || len(rs.Results) != 1 {
		return nil, false, nil
	}
	res := ast.Unparen(rs.Results[0])
	isPtr := false
	if u, ok := res.(*ast.UnaryExpr); ok && u.Op == token.AND {
		res, isPtr = ast.Unparen(u.X), true
	}
	cl, _ := res.(*ast.CompositeLit)
	if cl == nil {
		return nil, false, nil
	}
	b := map[types.Object]ast.Expr{}
	for i, po := range paramObjs(info, fd) {
		if po != nil && i < len(call.Args) {
			b[po] = call.Args[i]
		}
	}
	if fd.Recv != nil {
		if ro := recvObj(info, fd); ro != nil {
			if se, ok := ast.Unparen(call.Fun).(*ast.SelectorExpr); ok {
				b[ro] = se.X
			}
		}
	}
	return cl, isPtr, b
}

// constBoolParams: the boolean parameters of spliced helpers that are bound to a constant at the
// (only) call spliced into this graph: `o.forEach(false, consumer)` fixes `reverse` inside the spliced
// body. Passed as searchOpts.InitFacts, reach then follows only the branch that call can take.
func (f *FuncCFG) constBoolParams() map[types.Object]bool {
	out := map[types.Object]bool{}
	conflict := map[types.Object]bool{}
	seen := map[*region]bool{}
	for _, reg := range f.regionOf {
		for ; reg != nil; reg = reg.parent {
			if seen[reg] || reg.pseudo || reg.fd == nil || reg.call == nil {
				continue
			}
			seen[reg] = true
			ps := paramObjs(f.Info, reg.fd)
			args := reg.call.Args
			// a package-level function spliced for a method value keeps its argument order; a receiver-role
			// parameter is an ordinary argument
			for i, po := range ps {
				if po == nil || i >= len(args) {
					continue
				}
				b, isB := po.Type().Underlying().(*types.Basic)
				if !isB || b.Kind() != types.Bool {
					continue
				}
				tv, ok := f.Info.Types[args[i]]
				if !ok || tv.Value == nil {
					continue
				}
				v := tv.Value.String() == "true"
				if old, has := out[po]; has && old != v {
					conflict[po] = true
				}
				out[po] = v
			}
		}
	}
	for po := range conflict {
		delete(out, po)
	}
	return out
}

// statefulClosureFactory: call is a call of a function of the analysed package whose body declares
// variables (the closure's private state) and then returns a function literal. Returns the literal
// and the binding of the factory's parameters to the call's arguments.
func statefulClosureFactory(p *Prog, info *types.Info, call *ast.CallExpr) (*ast.FuncLit, map[types.Object]ast.Expr) {
	if p == nil {
		return nil, nil
	}
	fn := staticCallee(info, call)
	if fn == nil {
		return nil, nil
	}
	fd := p.decls().byFunc[fn.Origin()]
	if fd == nil || fd.Body == nil || p.decls().infoOf[fd] != info || len(fd.Body.List) == 0 {
		return nil, nil
	}
	for _, st := range fd.Body.List[:len(fd.Body.List)-1] {
		if _, isDecl := st.(*ast.DeclStmt); !isDecl {
			return nil, nil
		}
	}
	rs, ok := fd.Body.List[len(fd.Body.List)-1].(*ast.ReturnStmt)
	if !ok || len(rs.Results) != 1 {
		return nil, nil
	}
	lit, _ := ast.Unparen(rs.Results[0]).(*ast.FuncLit)
	if lit == nil {
		return nil, nil
	}
	bind := map[types.Object]ast.Expr{}
	for i, po := range paramObjs(info, fd) {
		if po != nil && i < len(call.Args) {
			bind[po] = call.Args[i]
		}
	}
	return lit, bind
}

// valueReceiverLoses: e is a method value whose method is declared with a VALUE receiver and whose body
// writes through the receiver (assigns one of its fields, or calls a pointer-receiver method on it):
// the method value binds a copy of the struct, so everything it records is lost to whoever built the
// struct. Returns a description, or "".
func valueReceiverLoses(p *Prog, info *types.Info, e ast.Expr) string {
	se, ok := ast.Unparen(e).(*ast.SelectorExpr)
	if !ok {
		return ""
	}
	sel := info.Selections[se]
	if sel == nil || sel.Kind() != types.MethodVal {
		return ""
	}
	fn, _ := sel.Obj().(*types.Func)
	if fn == nil {
		return ""
	}
	fd := p.decls().byFunc[fn.Origin()]
	if fd == nil || fd.Body == nil || fd.Recv == nil || len(fd.Recv.List) != 1 {
		return ""
	}
	if _, isPtr := fd.Recv.List[0].Type.(*ast.StarExpr); isPtr {
		return ""
	}
	ro := recvObj(info, fd)
	if ro == nil {
		return ""
	}
	finfo := p.decls().infoOf[fd]
	if finfo == nil {
		finfo = info
	}
	why := ""
	ast.Inspect(fd.Body, func(n ast.Node) bool {
		if why != "" {
			return false
		}
		switch x := n.(type) {
		case *ast.AssignStmt:
			for _, l := range x.Lhs {
				if lse, ok := ast.Unparen(l).(*ast.SelectorExpr); ok && objOfIdent(finfo, lse.X) == ro {
					if fs := finfo.Selections[lse]; fs != nil && fs.Kind() == types.FieldVal {
						why = p.posStr(l.Pos()) + ": " + fd.Name.Name + " has a value receiver and assigns " + exprKey(l) + ": the method value works on a copy of the struct, the assignment is lost"
					}
				}
			}
		case *ast.IncDecStmt:
			if lse, ok := ast.Unparen(x.X).(*ast.SelectorExpr); ok && objOfIdent(finfo, lse.X) == ro {
				why = p.posStr(x.Pos()) + ": " + fd.Name.Name + " has a value receiver and updates " + exprKey(x.X) + " of a copy"
			}
		case *ast.CallExpr:
			if cse, ok := ast.Unparen(x.Fun).(*ast.SelectorExpr); ok && objOfIdent(finfo, cse.X) == ro {
				if cs := finfo.Selections[cse]; cs != nil && cs.Kind() == types.MethodVal {
					if cfn, _ := cs.Obj().(*types.Func); cfn != nil {
						if sig, _ := cfn.Type().(*types.Signature); sig != nil && sig.Recv() != nil {
							if _, ptr := sig.Recv().Type().(*types.Pointer); ptr {
								if cfd := p.decls().byFunc[cfn.Origin()]; cfd != nil && cfd.Body != nil {
									cro := recvObj(finfo, cfd)
									writes := false
									ast.Inspect(cfd.Body, func(m ast.Node) bool {
										if as, ok := m.(*ast.AssignStmt); ok {
											for _, l := range as.Lhs {
												if lse, ok := ast.Unparen(l).(*ast.SelectorExpr); ok && cro != nil && objOfIdent(finfo, lse.X) == cro {
													writes = true
												}
											}
										}
										return !writes
									})
									if writes {
										why = p.posStr(x.Pos()) + ": " + fd.Name.Name + " has a value receiver and calls " + cfn.Name() + ", which writes its receiver: the write goes to a copy of the struct"
									}
								}
							}
						}
					}
				}
			}
		}
		return true
	})
	return why
}

// flagSetPoints: the program points right after which the boolean flag field `field` is known to hold
// `val`, whether the flag is a plain bool (`x.f = val`) or an atomic.Bool (`x.f.Store(val)`, or the
// success edge of `x.f.CompareAndSwap(old, val)` / of a tested `x.f.Swap(val)` is not included:
// a swap stores unconditionally and counts as a store).
func (f *FuncCFG) flagSetPoints(field, val string) []Point {
	var out []Point
	isFlag := func(e ast.Expr) bool { return fieldSel(f.Info, e, field) }
	casTrue := map[*ast.CallExpr]bool{}
	for _, b := range f.G.Blocks {
		if !b.Live {
			continue
		}
		for i, nd := range b.Nodes {
			inspectNoLit(nd, func(m ast.Node) bool {
				switch x := m.(type) {
				case *ast.AssignStmt:
					if len(x.Lhs) == 1 && len(x.Rhs) == 1 && isFlag(x.Lhs[0]) && rawKey(x.Rhs[0]) == val {
						out = append(out, Point{b, i + 1})
					}
				case *ast.CallExpr:
					se, ok := ast.Unparen(x.Fun).(*ast.SelectorExpr)
					if !ok || !isFlag(se.X) {
						return true
					}
					switch {
					case (se.Sel.Name == "Store" || se.Sel.Name == "Swap") && len(x.Args) == 1 && rawKey(x.Args[0]) == val:
						out = append(out, Point{b, i + 1})
					case se.Sel.Name == "CompareAndSwap" && len(x.Args) == 2 && rawKey(x.Args[1]) == val:
						casTrue[x] = true
					}
				}
				return true
			})
		}
	}
	if len(casTrue) > 0 {
		seen := map[Edge]bool{}
		f.forEachEdgeFact(func(e Edge, _ *cfg.Block, ft fact) {
			if c, ok := ast.Unparen(ft.Atom).(*ast.CallExpr); ok && casTrue[c] && ft.Pol && !seen[e] {
				seen[e] = true
				out = append(out, Point{e.From.Succs[e.Succ], 0})
			}
		})
	}
	return out
}

// notFreshlyAllocated: every value e can have at pt (Origins, through spliced helpers) is an
// allocation made on this path - &T{...}, new(T), or a constructor of the package whose body is
// `return &T{...}`. Returns "" if so, otherwise a description of the first other origin (a field, a
// slice element, a pool: an object that existed before and may still be referred to).
func notFreshlyAllocated(f *FuncCFG, info *types.Info, e ast.Expr, pt Point) string {
	os := f.Origins(e, pt)
	if len(os) == 0 {
		return "the origin of " + exprKey(e) + " is unknown"
	}
	for _, o := range os {
		x := ast.Unparen(o.E)
		if u, ok := x.(*ast.UnaryExpr); ok && u.Op == token.AND {
			if _, isLit := ast.Unparen(u.X).(*ast.CompositeLit); isLit {
				continue
			}
		}
		if c, ok := x.(*ast.CallExpr); ok {
			if id, isId := ast.Unparen(c.Fun).(*ast.Ident); isId && id.Name == "new" && info.Uses[id] == types.Universe.Lookup("new") {
				continue
			}
			if lit, _, _ := constructorLiteral(f.P, info, c); lit != nil {
				continue
			}
		}
		return exprKey(e) + " can be " + exprKey(o.E) + " (" + f.PosOf(o.At) + "), an object that existed before this call"
	}
	return ""
}
