package main

// CFG path primitives over go/cfg (DESIGN §2 R-DOM): must-precede, must-follow,
// only-on-edge; all answered by reachability with nodes/edges removed, so every
// violation comes with a witness path.

import (
	"fmt"
	"go/ast"
	"go/token"
	"go/types"

	"golang.org/x/tools/go/cfg"
)

type FuncCFG struct {
	P    *Prog
	Info *types.Info
	Body *ast.BlockStmt
	G    *cfg.CFG
	Name string
}

// Point = position just before node I of block B (I == len(B.Nodes) means block end).
type Point struct {
	B *cfg.Block
	I int
}

type Edge struct {
	From *cfg.Block
	Succ int // index in From.Succs
}

func newFuncCFG(p *Prog, info *types.Info, body *ast.BlockStmt, name string) *FuncCFG {
	return &FuncCFG{P: p, Info: info, Body: body, G: cfg.New(body, mayReturn(info)), Name: name}
}

func (p *Prog) CFGOf(pkg, recv, name string) *FuncCFG {
	fd := p.FuncDecl(pkg, recv, name)
	pk := p.Pkg(pkg)
	if fd == nil || pk == nil || fd.Body == nil {
		return nil
	}
	return newFuncCFG(p, pk.TypesInfo, fd.Body, funcKey(pkg, fd))
}

// containsNode reports whether sub occurs inside n without crossing a function literal.
func inspectNoLit(n ast.Node, f func(ast.Node) bool) {
	ast.Inspect(n, func(c ast.Node) bool {
		if c == nil {
			return true
		}
		if _, ok := c.(*ast.FuncLit); ok && c != n {
			return false
		}
		return f(c)
	})
}

// Find returns the points of all block nodes that contain a sub-node matching pred.
func (f *FuncCFG) Find(pred func(ast.Node) bool) []Point {
	var out []Point
	for _, b := range f.G.Blocks {
		if !b.Live {
			continue
		}
		for i, n := range b.Nodes {
			hit := false
			inspectNoLit(n, func(c ast.Node) bool {
				if hit {
					return false
				}
				if pred(c) {
					hit = true
					return false
				}
				return true
			})
			if hit {
				out = append(out, Point{b, i})
			}
		}
	}
	return out
}

func (f *FuncCFG) nodeAt(pt Point) ast.Node {
	if pt.I < len(pt.B.Nodes) {
		return pt.B.Nodes[pt.I]
	}
	return nil
}

func (f *FuncCFG) PosOf(pt Point) string {
	if n := f.nodeAt(pt); n != nil {
		return f.P.posStr(n.Pos())
	}
	return f.P.posStr(f.Body.Rbrace)
}

// isExitBlock: a live block without successors that does not end in a no-return call.
func (f *FuncCFG) isExitBlock(b *cfg.Block) bool {
	if len(b.Succs) != 0 || !b.Live {
		return false
	}
	if b.Kind == cfg.KindSelectAfterCase && len(b.Nodes) == 0 {
		return false // select without default: "no case ready" blocks, it is not an exit
	}
	if len(b.Nodes) > 0 {
		if es, ok := b.Nodes[len(b.Nodes)-1].(*ast.ExprStmt); ok {
			if c, ok := es.X.(*ast.CallExpr); ok && !mayReturn(f.Info)(c) {
				return false
			}
		}
	}
	return true
}

type searchOpts struct {
	AvoidNode func(n ast.Node) bool // a block node containing a match blocks the path
	AvoidEdge func(e Edge) bool
}

func (f *FuncCFG) nodeBlocked(n ast.Node, o *searchOpts) bool {
	if o == nil || o.AvoidNode == nil {
		return false
	}
	hit := false
	inspectNoLit(n, func(c ast.Node) bool {
		if hit {
			return false
		}
		if o.AvoidNode(c) {
			hit = true
			return false
		}
		return true
	})
	return hit
}

// reach explores forward from `from` (the node at from.I is the first one executed) and
// returns, for the first target hit, the witness path (positions). target is called with
// each point reached; exits are reported as Point{b, len(b.Nodes)} of exit blocks.
func (f *FuncCFG) reach(from Point, o *searchOpts, target func(pt Point, atExit bool) bool) ([]string, bool) {
	type item struct {
		b    *cfg.Block
		i    int
		path []string
	}
	seen := map[*cfg.Block]bool{}
	queue := []item{{from.B, from.I, nil}}
	first := true
	for len(queue) > 0 {
		it := queue[0]
		queue = queue[1:]
		if !first || it.i == 0 {
			if seen[it.b] {
				continue
			}
			seen[it.b] = true
		}
		first = false
		blocked := false
		path := it.path
		for i := it.i; i < len(it.b.Nodes); i++ {
			n := it.b.Nodes[i]
			if target(Point{it.b, i}, false) {
				return append(path, f.P.posStr(n.Pos())), true
			}
			if f.nodeBlocked(n, o) {
				blocked = true
				break
			}
		}
		if blocked {
			continue
		}
		if len(it.b.Nodes) > 0 {
			path = append(append([]string{}, path...), fmt.Sprintf("%s (%s)", f.P.posStr(it.b.Nodes[0].Pos()), it.b.Kind))
		}
		if f.isExitBlock(it.b) {
			if target(Point{it.b, len(it.b.Nodes)}, true) {
				end := f.Body.Rbrace
				if len(it.b.Nodes) > 0 {
					end = it.b.Nodes[len(it.b.Nodes)-1].Pos()
				}
				return append(path, "exit at "+f.P.posStr(end)), true
			}
		}
		for si, s := range it.b.Succs {
			if o != nil && o.AvoidEdge != nil && o.AvoidEdge(Edge{it.b, si}) {
				continue
			}
			queue = append(queue, item{s, 0, path})
		}
	}
	return nil, false
}

func (f *FuncCFG) entry() Point { return Point{f.G.Blocks[0], 0} }

// PathToExitAvoiding: is there a path from just after `from` to a normal exit that avoids
// every node matching avoid? Returns the witness.
func (f *FuncCFG) PathToExitAvoiding(from Point, avoid func(ast.Node) bool) ([]string, bool) {
	return f.reach(Point{from.B, from.I + 1}, &searchOpts{AvoidNode: avoid}, func(pt Point, atExit bool) bool { return atExit })
}

// PathFromEntryAvoiding: is there a path from entry to `to` that avoids nodes matching
// avoid / edges matching avoidEdge?
func (f *FuncCFG) PathFromEntryAvoiding(to Point, avoid func(ast.Node) bool, avoidEdge func(Edge) bool) ([]string, bool) {
	return f.reach(f.entry(), &searchOpts{AvoidNode: avoid, AvoidEdge: avoidEdge}, func(pt Point, atExit bool) bool {
		return !atExit && pt.B == to.B && pt.I == to.I
	})
}

// ---- condition edges ----------------------------------------------------------------------

// condOf returns the condition expression a block ends in (if it branches on one).
func condOf(b *cfg.Block) ast.Expr {
	if len(b.Succs) != 2 || len(b.Nodes) == 0 {
		return nil
	}
	e, _ := b.Nodes[len(b.Nodes)-1].(ast.Expr)
	return e
}

// nilTest recognises `x != nil`, `x == nil`, `nil != x`, `!(x == nil)`; returns the tested
// expression and whether the TRUE edge means "x is non-nil".
func nilTest(info *types.Info, e ast.Expr) (ast.Expr, bool, bool) {
	neg := false
	for {
		e = ast.Unparen(e)
		if u, ok := e.(*ast.UnaryExpr); ok && u.Op == token.NOT {
			neg = !neg
			e = u.X
			continue
		}
		break
	}
	b, ok := e.(*ast.BinaryExpr)
	if !ok || (b.Op != token.NEQ && b.Op != token.EQL) {
		return nil, false, false
	}
	var x ast.Expr
	if isNil(info, b.Y) {
		x = b.X
	} else if isNil(info, b.X) {
		x = b.Y
	} else {
		return nil, false, false
	}
	nonNilOnTrue := b.Op == token.NEQ
	if neg {
		nonNilOnTrue = !nonNilOnTrue
	}
	return x, nonNilOnTrue, true
}

func isNil(info *types.Info, e ast.Expr) bool {
	id, ok := ast.Unparen(e).(*ast.Ident)
	if !ok {
		return false
	}
	_, isNilObj := info.Uses[id].(*types.Nil)
	return isNilObj
}

func objOfIdent(info *types.Info, e ast.Expr) types.Object {
	id, ok := ast.Unparen(e).(*ast.Ident)
	if !ok {
		return nil
	}
	if o := info.Uses[id]; o != nil {
		return o
	}
	return info.Defs[id]
}

// assignedCallBefore finds, scanning backwards from the end of block b (then through
// single-predecessor chains), the most recent assignment to variable v; returns the call on
// its right-hand side (nil if the assignment is not from a call) and whether one was found.
func (f *FuncCFG) lastAssignBefore(b *cfg.Block, idx int, v types.Object) (*ast.AssignStmt, bool) {
	preds := f.preds()
	seen := map[*cfg.Block]bool{}
	for b != nil && !seen[b] {
		seen[b] = true
		for i := idx - 1; i >= 0; i-- {
			if as, ok := b.Nodes[i].(*ast.AssignStmt); ok {
				for _, l := range as.Lhs {
					if objOfIdent(f.Info, l) == v {
						return as, true
					}
				}
			}
		}
		ps := preds[b]
		if len(ps) != 1 {
			return nil, false
		}
		b = ps[0]
		idx = len(b.Nodes)
	}
	return nil, false
}

// reachingDef is one assignment to a variable that can reach a program point.
type reachingDef struct {
	At  Point
	Rhs ast.Expr // the assigned expression (the call, for a tuple assignment)
}

// ReachingDefs returns every assignment to v that reaches pt (backwards over the CFG, each
// path stops at the first assignment found) and whether the function entry is also reachable
// backwards without any assignment (v is then a parameter or is used before being set).
func (f *FuncCFG) ReachingDefs(pt Point, v types.Object) (defs []reachingDef, fromEntry bool) {
	preds := f.preds()
	seen := map[*cfg.Block]bool{}
	var walk func(b *cfg.Block, idx int)
	walk = func(b *cfg.Block, idx int) {
		for i := idx - 1; i >= 0; i-- {
			if as, ok := b.Nodes[i].(*ast.AssignStmt); ok {
				for li, l := range as.Lhs {
					if objOfIdent(f.Info, l) == v {
						rhs := as.Rhs[0]
						if len(as.Rhs) == len(as.Lhs) {
							rhs = as.Rhs[li]
						}
						defs = append(defs, reachingDef{Point{b, i}, rhs})
						return
					}
				}
			}
		}
		if b == f.G.Blocks[0] {
			fromEntry = true
		}
		for _, pb := range preds[b] {
			if !seen[pb] {
				seen[pb] = true
				walk(pb, len(pb.Nodes))
			}
		}
	}
	walk(pt.B, pt.I)
	return
}

func (f *FuncCFG) preds() map[*cfg.Block][]*cfg.Block {
	m := map[*cfg.Block][]*cfg.Block{}
	for _, b := range f.G.Blocks {
		if !b.Live {
			continue
		}
		for _, s := range b.Succs {
			m[s] = append(m[s], b)
		}
	}
	return m
}

// fact: an atomic condition known to hold (Pol=true) or not to hold (Pol=false) on an edge.
type fact struct {
	Atom ast.Expr
	Pol  bool
}

// factsOn decomposes a branch condition: on the TRUE edge of A && B both hold, on the FALSE
// edge of A || B neither holds; negations flip. go/cfg does not split short-circuit
// operators, so this recovers the guard forms `if a || b { return }`.
func factsOn(cond ast.Expr, branch bool) []fact {
	e := ast.Unparen(cond)
	switch x := e.(type) {
	case *ast.UnaryExpr:
		if x.Op == token.NOT {
			return factsOn(x.X, !branch)
		}
	case *ast.Ident, *ast.CallExpr:
		// a boolean temporary or an unexported single-expression helper stands for its
		// defining expression (canon.go): decompose that one
		if under, ok := astSubst[x]; ok {
			if fs := factsOn(under, branch); len(fs) > 0 {
				return fs
			}
			return nil
		}
	case *ast.BinaryExpr:
		if x.Op == token.LAND {
			if branch {
				return append(factsOn(x.X, true), factsOn(x.Y, true)...)
			}
			return nil
		}
		if x.Op == token.LOR {
			if !branch {
				return append(factsOn(x.X, false), factsOn(x.Y, false)...)
			}
			return nil
		}
	}
	return []fact{{e, branch}}
}

// forEachEdgeFact calls fn for every (edge, fact) pair of the function.
func (f *FuncCFG) forEachEdgeFact(fn func(e Edge, b *cfg.Block, ft fact)) {
	for _, b := range f.G.Blocks {
		if !b.Live {
			continue
		}
		c := condOf(b)
		if c == nil {
			continue
		}
		for si, br := range []bool{true, false} {
			for _, ft := range factsOn(c, br) {
				fn(Edge{b, si}, b, ft)
			}
		}
	}
}

// ErrEdges finds the branch edges that test the error result of `call` (assigned to some
// variable) against nil: success = edges taken when the error is nil, failure = non-nil.
func (f *FuncCFG) ErrEdges(call *ast.CallExpr) (success, failure []Edge) {
	f.forEachEdgeFact(func(e Edge, b *cfg.Block, ft fact) {
		x, nonNilOnTrue, ok := nilTest(f.Info, ft.Atom)
		if !ok {
			return
		}
		v := objOfIdent(f.Info, x)
		if v == nil {
			return
		}
		as, found := f.lastAssignBefore(b, len(b.Nodes)-1, v)
		if !found || len(as.Rhs) != 1 || ast.Unparen(as.Rhs[0]) != ast.Expr(call) {
			return
		}
		if nonNilOnTrue == ft.Pol {
			failure = append(failure, e)
		} else {
			success = append(success, e)
		}
	})
	return
}

// OnlyAfterSuccess: is every path from entry to `pt` forced through a success edge of call?
// Returns a witness path that bypasses all success edges, if any.
func (f *FuncCFG) OnlyAfterSuccess(pt Point, call *ast.CallExpr) (witness []string, ok bool, nEdges int) {
	succ, _ := f.ErrEdges(call)
	if len(succ) == 0 {
		return nil, false, 0
	}
	w, found := f.PathFromEntryAvoiding(pt, nil, func(e Edge) bool {
		for _, s := range succ {
			if s == e {
				return true
			}
		}
		return false
	})
	return w, !found, len(succ)
}

// callsIn returns all call expressions in the body (not inside literals) matching pred.
func (f *FuncCFG) Calls(pred func(*ast.CallExpr) bool) []*ast.CallExpr {
	var out []*ast.CallExpr
	inspectNoLit(f.Body, func(n ast.Node) bool {
		if c, ok := n.(*ast.CallExpr); ok && pred(c) {
			out = append(out, c)
		}
		return true
	})
	return out
}

// PointOf finds the block point whose node contains n.
func (f *FuncCFG) PointOf(n ast.Node) (Point, bool) {
	pts := f.Find(func(c ast.Node) bool { return c == n })
	if len(pts) == 0 {
		return Point{}, false
	}
	return pts[0], true
}

// selectorCall matches calls of the form <recvExpr>.<name>(...) where the receiver's
// static type (deref) has the given type name ("" = any), e.g. ("KVStore","Set").
func selectorCall(info *types.Info, c *ast.CallExpr, recvType, name string) bool {
	se, ok := ast.Unparen(c.Fun).(*ast.SelectorExpr)
	if !ok || se.Sel.Name != name {
		return false
	}
	if recvType == "" {
		return true
	}
	tn := typeName(info.TypeOf(se.X))
	return tn == recvType || shortTypeName(tn) == recvType
}

func shortTypeName(s string) string {
	for i := len(s) - 1; i >= 0; i-- {
		if s[i] == '.' {
			return s[i+1:]
		}
	}
	return s
}

// fieldSel reports whether e is a selector of field `field` (any base).
func fieldSel(info *types.Info, e ast.Expr, field string) bool {
	se, ok := ast.Unparen(e).(*ast.SelectorExpr)
	if !ok || se.Sel.Name != field {
		return false
	}
	sel := info.Selections[se]
	return sel != nil && sel.Kind() == types.FieldVal
}

// CondEdges returns the edges on which an atomic condition matching `match` is known to be
// true (trueEdges) or false (falseEdges); negations and &&/|| are decomposed.
func (f *FuncCFG) CondEdges(match func(cond ast.Expr) bool) (trueEdges, falseEdges []Edge) {
	f.forEachEdgeFact(func(e Edge, b *cfg.Block, ft fact) {
		if !match(ft.Atom) {
			return
		}
		if ft.Pol {
			trueEdges = append(trueEdges, e)
		} else {
			falseEdges = append(falseEdges, e)
		}
	})
	return
}

// OnlyThroughEdges: every path entry -> pt crosses one of edges. Returns witness if not.
func (f *FuncCFG) OnlyThroughEdges(pt Point, edges []Edge) ([]string, bool) {
	if len(edges) == 0 {
		return []string{"no such edge exists in " + f.Name}, false
	}
	w, found := f.PathFromEntryAvoiding(pt, nil, func(e Edge) bool {
		for _, s := range edges {
			if s == e {
				return true
			}
		}
		return false
	})
	return w, !found
}

// definingCall returns the call expression that the variable (ident) is assigned from,
// if the variable has exactly one assignment in body and that assignment's RHS is a call.
func definingCall(info *types.Info, body ast.Node, id ast.Expr) *ast.CallExpr {
	v := objOfIdent(info, id)
	if v == nil {
		return nil
	}
	var calls []*ast.CallExpr
	n := 0
	ast.Inspect(body, func(c ast.Node) bool {
		as, ok := c.(*ast.AssignStmt)
		if !ok {
			return true
		}
		for _, l := range as.Lhs {
			if objOfIdent(info, l) == v {
				n++
				if len(as.Rhs) == 1 {
					if ce, ok := ast.Unparen(as.Rhs[0]).(*ast.CallExpr); ok {
						calls = append(calls, ce)
					}
				}
			}
		}
		return true
	})
	if n == 1 && len(calls) == 1 {
		return calls[0]
	}
	return nil
}

// ReachingCall: the call whose result was most recently assigned to the variable `id` before
// the branch condition containing `at` is evaluated (flow-sensitive along single-predecessor
// chains). nil if unknown.
func (f *FuncCFG) ReachingCall(at ast.Node, id ast.Expr) *ast.CallExpr {
	v := objOfIdent(f.Info, id)
	if v == nil {
		return nil
	}
	for _, b := range f.G.Blocks {
		if !b.Live {
			continue
		}
		for i, n := range b.Nodes {
			hit := false
			inspectNoLit(n, func(c ast.Node) bool {
				if c == at {
					hit = true
				}
				return !hit
			})
			if !hit {
				continue
			}
			as, found := f.lastAssignBefore(b, i, v)
			if !found || len(as.Rhs) != 1 {
				return nil
			}
			c, _ := ast.Unparen(as.Rhs[0]).(*ast.CallExpr)
			return c
		}
	}
	return nil
}

// AfterComm returns the point at which a communication (send/receive statement) has
// happened: for a plain statement the point right after it; for the comm of a select case the
// entry of that case's body (go/cfg places all comm statements of a select in the head block
// although only the chosen one happens).
func (f *FuncCFG) AfterComm(pred func(ast.Node) bool) []Point {
	var out []Point
	clauses := map[*ast.CommClause]bool{}
	ast.Inspect(f.Body, func(n ast.Node) bool {
		if _, ok := n.(*ast.FuncLit); ok && n != ast.Node(f.Body) {
			return false
		}
		cc, ok := n.(*ast.CommClause)
		if !ok || cc.Comm == nil {
			return true
		}
		hit := false
		ast.Inspect(cc.Comm, func(m ast.Node) bool {
			if m != nil && pred(m) {
				hit = true
			}
			return !hit
		})
		if hit {
			clauses[cc] = true
		}
		return true
	})
	inClause := func(n ast.Node) bool {
		for cc := range clauses {
			if cc.Comm.Pos() <= n.Pos() && n.End() <= cc.Comm.End() {
				return true
			}
		}
		return false
	}
	for _, b := range f.G.Blocks {
		if !b.Live {
			continue
		}
		if cc, ok := b.Stmt.(*ast.CommClause); ok && b.Kind == cfg.KindSelectCaseBody && clauses[cc] {
			out = append(out, Point{b, 0})
		}
	}
	for _, pt := range f.Find(pred) {
		if n := f.nodeAt(pt); n != nil && !inClause(n) {
			out = append(out, Point{pt.B, pt.I + 1})
		}
	}
	return out
}

// recvObj returns the receiver variable of a method declaration (nil for functions and
// anonymous receivers).
func recvObj(info *types.Info, fd *ast.FuncDecl) types.Object {
	if fd.Recv == nil || len(fd.Recv.List) == 0 || len(fd.Recv.List[0].Names) == 0 {
		return nil
	}
	return info.Defs[fd.Recv.List[0].Names[0]]
}
