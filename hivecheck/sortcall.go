package main

import (
	"go/ast"
	"go/token"
	"go/types"
	"strings"
)

// sortDesc is the normal form of a call that sorts a slice in place, whichever library spelling is
// used: sort.Slice / sort.SliceStable with a less closure, sort.Sort / sort.Stable over one of the
// sort.XxxSlice adapters (possibly under sort.Reverse), sort.Strings / Ints / Float64s, slices.Sort,
// slices.SortFunc / SortStableFunc with a three-way comparator (a literal, or a function value such
// as bytes.Compare). The ordering is described by the key extracted from one element ("@" stands
// for the element), the kind of comparison on that key and the direction.
type sortDesc struct {
	Call   *ast.CallExpr
	Target ast.Expr // the slice that is sorted
	Key    string   // key template, e.g. "@", "@.settings.position", "order(@)"
	Kind   string   // "ord" (<, cmp.Compare, strings.Compare), "bytes" (bytes.Compare), "time" (Before/After/Compare), "method:<name>"
	Desc   bool
	Stable bool
	OK     bool // the comparator was understood
}

func qualifiedCallee(info *types.Info, c *ast.CallExpr) string {
	fn := staticCallee(info, c)
	if fn == nil || fn.Pkg() == nil {
		return ""
	}
	if sig, ok := fn.Type().(*types.Signature); ok && sig.Recv() != nil {
		return ""
	}
	return fn.Pkg().Path() + "." + funcName(fn)
}

// qualifiedFuncValue names the package-level function an expression denotes (bytes.Compare,
// cmp.Compare[string], strings.Compare), or "".
func qualifiedFuncValue(info *types.Info, e ast.Expr) string {
	e = ast.Unparen(e)
	switch x := e.(type) {
	case *ast.IndexExpr:
		e = x.X
	case *ast.IndexListExpr:
		e = x.X
	}
	var id *ast.Ident
	switch x := ast.Unparen(e).(type) {
	case *ast.Ident:
		id = x
	case *ast.SelectorExpr:
		id = x.Sel
	}
	if id == nil {
		return ""
	}
	if fn, ok := info.Uses[id].(*types.Func); ok && fn.Pkg() != nil {
		if sig, ok := fn.Type().(*types.Signature); ok && sig.Recv() == nil {
			return fn.Pkg().Path() + "." + funcName(fn)
		}
	}
	return ""
}

// recogniseSort returns the normal form of c, or nil if c is not a sorting call.
func recogniseSort(info *types.Info, c *ast.CallExpr) *sortDesc {
	if info == nil {
		return nil
	}
	q := qualifiedCallee(info, c)
	d := &sortDesc{Call: c}
	switch q {
	case "sort.Strings", "sort.Ints", "sort.Float64s", "slices.Sort":
		if len(c.Args) != 1 {
			return nil
		}
		d.Target, d.Key, d.Kind, d.OK = c.Args[0], "@", "ord", true
		return d
	case "sort.Sort", "sort.Stable":
		if len(c.Args) != 1 {
			return nil
		}
		d.Stable = q == "sort.Stable"
		arg := ast.Unparen(c.Args[0])
		for {
			cl, ok := arg.(*ast.CallExpr)
			if !ok || len(cl.Args) != 1 {
				break
			}
			if qualifiedCallee(info, cl) == "sort.Reverse" {
				d.Desc = !d.Desc
				arg = ast.Unparen(cl.Args[0])
				continue
			}
			// a conversion to one of the adapters
			if tv, ok := info.Types[cl.Fun]; ok && tv.IsType() {
				if n, ok := tv.Type.(*types.Named); ok && n.Obj().Pkg() != nil && n.Obj().Pkg().Path() == "sort" {
					switch n.Obj().Name() {
					case "StringSlice", "IntSlice", "Float64Slice":
						d.Target, d.Key, d.Kind, d.OK = cl.Args[0], "@", "ord", true
						return d
					}
				}
			}
			break
		}
		d.Target = arg
		return d
	case "sort.Slice", "sort.SliceStable":
		if len(c.Args) != 2 {
			return nil
		}
		d.Target, d.Stable = c.Args[0], q == "sort.SliceStable"
		lit, ok := ast.Unparen(c.Args[1]).(*ast.FuncLit)
		if !ok {
			return d
		}
		ps := litParamObjs(info, lit)
		res := singleReturn(lit.Body)
		if len(ps) != 2 || res == nil {
			return d
		}
		tk := exprKey(c.Args[0])
		elem := func(e ast.Expr) (string, int) {
			// renders e with target[i] -> "@"; reports which index parameter it mentions (0, 1, or -1 none / 2 both)
			k := exprKeyEnv(e, info, map[types.Object]string{ps[0]: "\x00i", ps[1]: "\x00j"})
			hasI, hasJ := strings.Contains(k, tk+"[\x00i]"), strings.Contains(k, tk+"[\x00j]")
			k = strings.ReplaceAll(strings.ReplaceAll(k, tk+"[\x00i]", "@"), tk+"[\x00j]", "@")
			if strings.Contains(k, "\x00") {
				return k, 2
			}
			switch {
			case hasI && hasJ:
				return k, 2
			case hasI:
				return k, 0
			case hasJ:
				return k, 1
			}
			return k, -1
		}
		d.fromLess(info, res, elem)
		return d
	case "slices.SortFunc", "slices.SortStableFunc":
		if len(c.Args) != 2 {
			return nil
		}
		d.Target, d.Stable = c.Args[0], q == "slices.SortStableFunc"
		switch qualifiedFuncValue(info, c.Args[1]) {
		case "bytes.Compare":
			d.Key, d.Kind, d.OK = "@", "bytes", true
			return d
		case "cmp.Compare", "strings.Compare":
			d.Key, d.Kind, d.OK = "@", "ord", true
			return d
		}
		lit, ok := ast.Unparen(c.Args[1]).(*ast.FuncLit)
		if !ok {
			return d
		}
		ps := litParamObjs(info, lit)
		res := singleReturn(lit.Body)
		if len(ps) != 2 || res == nil {
			return d
		}
		elem := func(e ast.Expr) (string, int) {
			k := exprKeyEnv(e, info, map[types.Object]string{ps[0]: "\x00a", ps[1]: "\x00b"})
			hasA, hasB := strings.Contains(k, "\x00a"), strings.Contains(k, "\x00b")
			k = strings.ReplaceAll(strings.ReplaceAll(k, "\x00a", "@"), "\x00b", "@")
			switch {
			case hasA && hasB:
				return k, 2
			case hasA:
				return k, 0
			case hasB:
				return k, 1
			}
			return k, -1
		}
		d.fromThreeWay(info, res, elem)
		return d
	}
	return nil
}

func litParamObjs(info *types.Info, lit *ast.FuncLit) []types.Object {
	var out []types.Object
	for _, fl := range lit.Type.Params.List {
		for _, nm := range fl.Names {
			out = append(out, info.Defs[nm])
		}
	}
	return out
}

// singleReturn: the result expression of a body that is one `return e` (comments aside).
func singleReturn(b *ast.BlockStmt) ast.Expr {
	if b == nil || len(b.List) != 1 {
		return nil
	}
	rs, ok := b.List[0].(*ast.ReturnStmt)
	if !ok || len(rs.Results) != 1 {
		return nil
	}
	return rs.Results[0]
}

// setPair records "the element rendered by l sorts before the element rendered by r".
func (d *sortDesc) setPair(kind string, l, r ast.Expr, elem func(ast.Expr) (string, int), swapped bool) {
	lk, lw := elem(l)
	rk, rw := elem(r)
	if lk != rk || lw == rw || lw < 0 || rw < 0 || lw > 1 || rw > 1 {
		return
	}
	d.Key, d.Kind, d.OK = lk, kind, true
	d.Desc = (lw == 1) != swapped
}

// threeWayCall decomposes a three-way comparison expression cmp(l, r) (negative when l sorts first).
func threeWayCall(info *types.Info, e ast.Expr) (kind string, l, r ast.Expr, neg, ok bool) {
	e = ast.Unparen(e)
	for {
		u, isU := e.(*ast.UnaryExpr)
		if !isU || u.Op != token.SUB {
			break
		}
		neg = !neg
		e = ast.Unparen(u.X)
	}
	cl, isCall := e.(*ast.CallExpr)
	if !isCall {
		return
	}
	switch qualifiedCallee(info, cl) {
	case "bytes.Compare":
		if len(cl.Args) == 2 {
			return "bytes", cl.Args[0], cl.Args[1], neg, true
		}
	case "cmp.Compare", "strings.Compare":
		if len(cl.Args) == 2 {
			return "ord", cl.Args[0], cl.Args[1], neg, true
		}
	}
	// x.Compare(y) / x.CompareTo(y): a three-way method
	if se, isSel := ast.Unparen(cl.Fun).(*ast.SelectorExpr); isSel && len(cl.Args) == 1 {
		if fn, isFn := info.Uses[se.Sel].(*types.Func); isFn {
			if sig := fn.Type().(*types.Signature); sig.Recv() != nil && sig.Results().Len() == 1 {
				if b, isB := sig.Results().At(0).Type().Underlying().(*types.Basic); isB && b.Info()&types.IsInteger != 0 {
					kind := "method:" + funcName(fn)
					if fn.Pkg() != nil && fn.Pkg().Path() == "time" && funcName(fn) == "Compare" {
						kind = "time"
					}
					return kind, se.X, cl.Args[0], neg, true
				}
			}
		}
	}
	return
}

func (d *sortDesc) fromThreeWay(info *types.Info, res ast.Expr, elem func(ast.Expr) (string, int)) {
	if kind, l, r, neg, ok := threeWayCall(info, res); ok {
		d.setPair(kind, l, r, elem, neg)
	}
}

// fromLess understands a boolean "sorts before" expression.
func (d *sortDesc) fromLess(info *types.Info, res ast.Expr, elem func(ast.Expr) (string, int)) {
	res = ast.Unparen(res)
	if b, ok := res.(*ast.BinaryExpr); ok {
		// cmp(l, r) < 0, cmp(l, r) > 0, cmp(l, r) == -1, cmp(l, r) == 1
		if kind, l, r, neg, isCmp := threeWayCall(info, b.X); isCmp {
			if tv, okc := info.Types[b.Y]; okc && tv.Value != nil {
				v := tv.Value.String()
				switch {
				case (b.Op == token.LSS && v == "0") || (b.Op == token.EQL && v == "-1") || (b.Op == token.LEQ && v == "-1"):
					d.setPair(kind, l, r, elem, neg)
				case (b.Op == token.GTR && v == "0") || (b.Op == token.EQL && v == "1") || (b.Op == token.GEQ && v == "1"):
					d.setPair(kind, l, r, elem, !neg)
				}
			}
			return
		}
		switch b.Op {
		case token.LSS:
			d.setPair("ord", b.X, b.Y, elem, false)
		case token.GTR:
			d.setPair("ord", b.X, b.Y, elem, true)
		}
		return
	}
	// l.Before(r) / l.After(r)
	if cl, ok := res.(*ast.CallExpr); ok && len(cl.Args) == 1 {
		if se, isSel := ast.Unparen(cl.Fun).(*ast.SelectorExpr); isSel {
			if fn, isFn := info.Uses[se.Sel].(*types.Func); isFn && fn.Pkg() != nil && fn.Pkg().Path() == "time" {
				switch funcName(fn) {
				case "Before":
					d.setPair("time", se.X, cl.Args[0], elem, false)
				case "After":
					d.setPair("time", se.X, cl.Args[0], elem, true)
				}
			}
		}
	}
}

// sortIn finds the sorting call (if any) inside a CFG node, literals excluded.
func sortIn(info *types.Info, n ast.Node) *sortDesc {
	var out *sortDesc
	inspectNoLit(n, func(m ast.Node) bool {
		if c, ok := m.(*ast.CallExpr); ok && out == nil {
			out = recogniseSort(info, c)
		}
		return out == nil
	})
	return out
}
