package main

import (
	"go/ast"
	"go/types"
	"strings"
)

// Locking wrappers.
//
// A function of the analysed module that takes a function parameter and calls it, on every path
// that calls it, while holding a mutex reached from its own receiver (`func (t *T) locked(fn
// func()) { t.mu.Lock(); defer t.mu.Unlock(); fn() }`) runs its argument inside that critical
// section. The lockset engine learns this from the wrapper's body instead of from a table: a
// function literal handed to the wrapper is analysed with the wrapper's lock added to the caller's
// lockset, and a method value handed to it is a call of that method with the lock held. Running
// the body of a critical section through such a wrapper is therefore neutral for every lock rule,
// while a wrapper that calls its argument before locking or after unlocking gives nothing.

type lockWrapper struct {
	argIdx int
	chains map[string]LockMode // mutex path relative to the wrapper's receiver (".mutex") -> mode held at every call of the parameter
}

var (
	progOfInfo      = map[*types.Info]*Prog{}
	lockWrapperMemo = map[*types.Func][]lockWrapper{}
	lockWrapperBusy = map[*types.Func]bool{}
)

// lockWrappersOf: the function parameters of the callee of call that run under the callee's own
// receiver lock.
func lockWrappersOf(info *types.Info, call *ast.CallExpr) []lockWrapper {
	fn := staticCallee(info, call)
	if fn == nil {
		return nil
	}
	fn = fn.Origin()
	if w, ok := lockWrapperMemo[fn]; ok {
		return w
	}
	if lockWrapperBusy[fn] {
		return nil
	}
	p := progOfInfo[info]
	if p == nil {
		return nil
	}
	di := p.decls()
	fd := di.byFunc[fn]
	if fd == nil || fd.Body == nil || fd.Recv == nil || len(fd.Recv.List) != 1 || len(fd.Recv.List[0].Names) != 1 {
		lockWrapperMemo[fn] = nil
		return nil
	}
	finfo := di.infoOf[fd]
	recvObj := finfo.Defs[fd.Recv.List[0].Names[0]]
	if recvObj == nil {
		lockWrapperMemo[fn] = nil
		return nil
	}
	recvPath, _ := pathOf(finfo, fd.Recv.List[0].Names[0])
	lockWrapperBusy[fn] = true
	defer delete(lockWrapperBusy, fn)
	var out []lockWrapper
	idx := 0
	for _, fl := range fd.Type.Params.List {
		for _, nm := range fl.Names {
			i := idx
			idx++
			obj := finfo.Defs[nm]
			if obj == nil {
				continue
			}
			if _, isSig := obj.Type().Underlying().(*types.Signature); !isSig {
				continue
			}
			calls, escaped := 0, false
			var common LockSet
			AnalyzeLocks(fd.Body, LockSet{}, &FlowOpts{Info: finfo}, func(n ast.Node, stack []ast.Node, held LockSet) {
				id, ok := n.(*ast.Ident)
				if !ok || finfo.Uses[id] != obj {
					return
				}
				// only ever called, directly, in the wrapper's own frame
				var parent ast.Node
				for k := len(stack) - 1; k >= 0; k-- {
					if _, isParen := stack[k].(*ast.ParenExpr); isParen {
						continue
					}
					parent = stack[k]
					break
				}
				c, isCall := parent.(*ast.CallExpr)
				if !isCall || ast.Unparen(c.Fun) != ast.Expr(id) {
					escaped = true
					return
				}
				for k := len(stack) - 1; k >= 0; k-- {
					switch stack[k].(type) {
					case *ast.GoStmt, *ast.DeferStmt:
						escaped = true
					}
				}
				calls++
				if common == nil {
					common = LockSet{}
					for k, m := range held {
						common[k] = m
					}
				} else {
					common = meet(common, held)
				}
			})
			// a call inside a nested literal is analysed with that literal's own entry set by
			// AnalyzeLocks (inherited for synchronous callees), so `common` already accounts for it
			if escaped || calls == 0 {
				continue
			}
			w := lockWrapper{argIdx: i, chains: map[string]LockMode{}}
			for k, m := range common {
				if strings.HasPrefix(k, recvPath+".") && m > 0 {
					w.chains[strings.TrimPrefix(k, recvPath)] = m
				}
			}
			if len(w.chains) > 0 {
				out = append(out, w)
			}
		}
	}
	lockWrapperMemo[fn] = out
	return out
}

// wrapperLocksAt: the lockset a function argument at position argIdx of call runs under, given the
// caller's lockset at the call; ok=false if the callee is not a locking wrapper for that argument.
func wrapperLocksAt(info *types.Info, call *ast.CallExpr, argIdx int, held LockSet) (LockSet, bool) {
	ws := lockWrappersOf(info, call)
	if len(ws) == 0 {
		return nil, false
	}
	se, ok := ast.Unparen(call.Fun).(*ast.SelectorExpr)
	if !ok {
		return nil, false
	}
	sel := info.Selections[se]
	if sel == nil || sel.Kind() != types.MethodVal {
		return nil, false
	}
	base, okp := pathOf(info, se.X)
	if !okp {
		return nil, false
	}
	base += embeddedChain(sel, len(sel.Index())-1)
	for _, w := range ws {
		if w.argIdx != argIdx {
			continue
		}
		ns := held
		for chain, m := range w.chains {
			if ns[base+chain] < m {
				ns = ns.with(base+chain, m)
			}
		}
		return ns, true
	}
	return nil, false
}

// Closure factories (`func (t *T) collector(dst Set) func(E) { return func(e E) {...} }`).
//
// The literal such a function returns runs wherever the closure is called, so the lockset engine
// analyses it there (lockset.go: factoryLit / litAliased), with the factory's receiver and
// parameters standing for the receiver and arguments of the factory call. handledFactoryLits
// returns the literals for which EVERY use of the factory is of a kind the engine follows - the
// call is bound to a local that is only called or handed on as an argument, or it is itself an
// argument - so that analysing the literal a second time inside the factory (where no lock is
// held, and where it never runs) can be skipped. Any other use (the closure stored in a field,
// returned further, the factory used as a method value) keeps the conservative analysis in place.
func handledFactoryLits(p *Prog, pkg string) map[*ast.FuncLit]bool {
	out := map[*ast.FuncLit]bool{}
	pk := p.Pkg(pkg)
	if pk == nil {
		return out
	}
	info := pk.TypesInfo
	type factory struct {
		lit *ast.FuncLit
		bad bool
		n   int
	}
	facts := map[types.Object]*factory{}
	for _, fd := range p.AllFuncDecls(pkg) {
		if fd.Body == nil || len(fd.Body.List) != 1 {
			continue
		}
		rs, ok := fd.Body.List[0].(*ast.ReturnStmt)
		if !ok || len(rs.Results) != 1 {
			continue
		}
		if lit, isLit := ast.Unparen(rs.Results[0]).(*ast.FuncLit); isLit {
			if obj := info.Defs[fd.Name]; obj != nil {
				facts[obj] = &factory{lit: lit}
			}
		}
	}
	if len(facts) == 0 {
		return out
	}
	for _, fd := range p.AllFuncDecls(pkg) {
		if fd.Body == nil {
			continue
		}
		// locals bound to a factory call in this function
		bound := map[types.Object]*factory{}
		var stack []ast.Node
		ast.Inspect(fd.Body, func(n ast.Node) bool {
			if n == nil {
				stack = stack[:len(stack)-1]
				return true
			}
			stack = append(stack, n)
			id, ok := n.(*ast.Ident)
			if !ok {
				return true
			}
			parentAt := func(k int) ast.Node {
				// k-th ancestor, skipping parentheses and the selector the identifier is the Sel of
				i := len(stack) - 2
				for ; i >= 0; i-- {
					if _, isParen := stack[i].(*ast.ParenExpr); isParen {
						continue
					}
					if se, isSel := stack[i].(*ast.SelectorExpr); isSel && se.Sel == id {
						continue
					}
					if k == 0 {
						return stack[i]
					}
					k--
				}
				return nil
			}
			var used types.Object = info.Uses[id]
			if fn, isFn := used.(*types.Func); isFn {
				used = fn.Origin() // a method of a generic type is seen through an instantiation
			}
			if fa := facts[used]; fa != nil {
				fa.n++
				call, isCall := parentAt(0).(*ast.CallExpr)
				if !isCall || selIdent(call.Fun) != id {
					fa.bad = true // method value, or mentioned other than as the callee
					return true
				}
				switch up := parentAt(1).(type) {
				case *ast.CallExpr:
					isArg := false
					for _, a := range up.Args {
						if ast.Unparen(a) == ast.Expr(call) {
							isArg = true
						}
					}
					if !isArg {
						fa.bad = true
					}
				case *ast.AssignStmt:
					okBind := false
					if len(up.Lhs) == len(up.Rhs) {
						for i, rhs := range up.Rhs {
							if ast.Unparen(rhs) == ast.Expr(call) {
								if lid, isId := up.Lhs[i].(*ast.Ident); isId && lid.Name != "_" {
									o := info.Defs[lid]
									if o == nil {
										o = info.Uses[lid]
									}
									if o != nil {
										bound[o] = fa
										okBind = true
									}
								}
							}
						}
					}
					if !okBind {
						fa.bad = true
					}
				default:
					fa.bad = true
				}
				return true
			}
			if fa := bound[info.Uses[id]]; fa != nil {
				// a use of the local the closure was bound to: called, or handed on as an argument
				switch up := parentAt(0).(type) {
				case *ast.CallExpr:
					if ast.Unparen(up.Fun) == ast.Expr(id) {
						return true
					}
					for _, a := range up.Args {
						if ast.Unparen(a) == ast.Expr(id) {
							return true
						}
					}
					fa.bad = true
				default:
					fa.bad = true
				}
			}
			return true
		})
	}
	for _, fa := range facts {
		if !fa.bad && fa.n > 0 {
			out[fa.lit] = true
		}
	}
	return out
}
