package main

import (
	"go/ast"
	"go/types"
	"strings"
)

// Locking wrappers.
//
// A function of the analysed module that takes a function parameter and calls it, on every path
// that calls it, while holding a mutex reached from its own receiver (`func (t *T) locked(fn
// func()) { t.mu.Lock(); defer t.mu.Unlock(); fn() }`) runs its argument inside that critical
// section. The lockset engine learns this from the wrapper's body instead of from a table: a
// function literal handed to the wrapper is analysed with the wrapper's lock added to the caller's
// lockset, and a method value handed to it is a call of that method with the lock held. Running
// the body of a critical section through such a wrapper is therefore neutral for every lock rule,
// while a wrapper that calls its argument before locking or after unlocking gives nothing.

type lockWrapper struct {
	argIdx int
	chains map[string]LockMode // mutex path relative to the wrapper's receiver (".mutex") -> mode held at every call of the parameter
}

var (
	progOfInfo      = map[*types.Info]*Prog{}
	lockWrapperMemo = map[*types.Func][]lockWrapper{}
	lockWrapperBusy = map[*types.Func]bool{}
)

// lockWrappersOf: the function parameters of the callee of call that run under the callee's own
// receiver lock.
func lockWrappersOf(info *types.Info, call *ast.CallExpr) []lockWrapper {
	fn := staticCallee(info, call)
	if fn == nil {
		return nil
	}
	fn = fn.Origin()
	if w, ok := lockWrapperMemo[fn]; ok {
		return w
	}
	if lockWrapperBusy[fn] {
		return nil
	}
	p := progOfInfo[info]
	if p == nil {
		return nil
	}
	di := p.decls()
	fd := di.byFunc[fn]
	if fd == nil || fd.Body == nil || fd.Recv == nil || len(fd.Recv.List) != 1 || len(fd.Recv.List[0].Names) != 1 {
		lockWrapperMemo[fn] = nil
		return nil
	}
	finfo := di.infoOf[fd]
	recvObj := finfo.Defs[fd.Recv.List[0].Names[0]]
	if recvObj == nil {
		lockWrapperMemo[fn] = nil
		return nil
	}
	recvPath, _ := pathOf(finfo, fd.Recv.List[0].Names[0])
	lockWrapperBusy[fn] = true
	defer delete(lockWrapperBusy, fn)
	var out []lockWrapper
	idx := 0
	for _, fl := range fd.Type.Params.List {
		for _, nm := range fl.Names {
			i := idx
			idx++
			obj := finfo.Defs[nm]
			if obj == nil {
				continue
			}
			if _, isSig := obj.Type().Underlying().(*types.Signature); !isSig {
				continue
			}
			calls, escaped := 0, false
			var common LockSet
			AnalyzeLocks(fd.Body, LockSet{}, &FlowOpts{Info: finfo}, func(n ast.Node, stack []ast.Node, held LockSet) {
				id, ok := n.(*ast.Ident)
				if !ok || finfo.Uses[id] != obj {
					return
				}
				// only ever called, directly, in the wrapper's own frame
				var parent ast.Node
				for k := len(stack) - 1; k >= 0; k-- {
					if _, isParen := stack[k].(*ast.ParenExpr); isParen {
						continue
					}
					parent = stack[k]
					break
				}
				c, isCall := parent.(*ast.CallExpr)
				if !isCall || ast.Unparen(c.Fun) != ast.Expr(id) {
					escaped = true
					return
				}
				for k := len(stack) - 1; k >= 0; k-- {
					switch stack[k].(type) {
					case *ast.GoStmt, *ast.DeferStmt:
						escaped = true
					}
				}
				calls++
				if common == nil {
					common = LockSet{}
					for k, m := range held {
						common[k] = m
					}
				} else {
					common = meet(common, held)
				}
			})
			// a call inside a nested literal is analysed with that literal's own entry set by
			// AnalyzeLocks (inherited for synchronous callees), so `common` already accounts for it
			if escaped || calls == 0 {
				continue
			}
			w := lockWrapper{argIdx: i, chains: map[string]LockMode{}}
			for k, m := range common {
				if strings.HasPrefix(k, recvPath+".") && m > 0 {
					w.chains[strings.TrimPrefix(k, recvPath)] = m
				}
			}
			if len(w.chains) > 0 {
				out = append(out, w)
			}
		}
	}
	lockWrapperMemo[fn] = out
	return out
}

// wrapperLocksAt: the lockset a function argument at position argIdx of call runs under, given the
// caller's lockset at the call; ok=false if the callee is not a locking wrapper for that argument.
func wrapperLocksAt(info *types.Info, call *ast.CallExpr, argIdx int, held LockSet) (LockSet, bool) {
	ws := lockWrappersOf(info, call)
	if len(ws) == 0 {
		return nil, false
	}
	se, ok := ast.Unparen(call.Fun).(*ast.SelectorExpr)
	if !ok {
		return nil, false
	}
	sel := info.Selections[se]
	if sel == nil || sel.Kind() != types.MethodVal {
		return nil, false
	}
	base, okp := pathOf(info, se.X)
	if !okp {
		return nil, false
	}
	base += embeddedChain(sel, len(sel.Index())-1)
	for _, w := range ws {
		if w.argIdx != argIdx {
			continue
		}
		ns := held
		for chain, m := range w.chains {
			if ns[base+chain] < m {
				ns = ns.with(base+chain, m)
			}
		}
		return ns, true
	}
	return nil, false
}
