package main

import (
	"fmt"
	"go/ast"
	"go/token"
	"go/types"
	"strings"
)

// Rules that came out of the ninth seeding round (one-line slips). Each is a small structural
// necessary condition of the property it is wired into; the reason is stated with the rule.

// checkCondWakeIsBroadcast: a condition variable on which SEVERAL waiters can be admissible at once
// (the queued readers of StarvingMutex once no writer is active or pending) is woken with Broadcast
// wherever it is woken: Signal wakes one of them and the others stay parked although nothing excludes
// them - a lost wake-up.
func checkCondWakeIsBroadcast(r *Reporter, p *Prog, pkg, typ, cond string) {
	const rule = "cond/all-admissible-waiters-woken"
	pk := p.Pkg(pkg)
	if pk == nil {
		r.Unresolved(rule, pkg+"."+typ+"."+cond, "package not loaded")
		return
	}
	info := pk.TypesInfo
	nB := 0
	for _, fd := range p.Methods(pkg, typ) {
		if fd.Body == nil {
			continue
		}
		ast.Inspect(fd.Body, func(n ast.Node) bool {
			// the wake-up as a call or as a method value bound to a variable and called later
			se, ok := n.(*ast.SelectorExpr)
			if !ok || !fieldSel(info, se.X, cond) {
				return true
			}
			c := se
			key := funcKey(pkg, fd) + " " + cond + "." + se.Sel.Name
			switch se.Sel.Name {
			case "Signal":
				r.Fail(rule, key, p.posStr(c.Pos()), "every waiter on "+cond+" becomes admissible at the same moment (all queued readers once no writer is active or pending): Signal wakes one, the others stay parked although nothing excludes them")
			case "Broadcast":
				nB++
				r.Pass(rule, key, p.posStr(c.Pos()), "all waiters on "+cond+" are woken")
			}
			return true
		})
	}
	if nB == 0 {
		r.Unresolved(rule, pkg+"."+typ+"."+cond, "no Broadcast on the condition variable found (vacuous)")
	}
}

// checkInitialStateIsSnapshot: the initial state a new subscriber of a reactive set receives is a
// COPY of the set taken under the lock, never the live backing set: a change made while the initial
// callback is pending would otherwise show up in the initial state and be reported again by the
// writer's own callback (an element reported added twice, or deleted without having been added).
func checkInitialStateIsSnapshot(r *Reporter, p *Prog, pkg, typ, method string) {
	const rule = "snapshot/initial-state-is-a-copy"
	key := pkg + "." + typ + "." + method
	f := p.CFGOf(pkg, typ, method)
	if f == nil {
		r.Unresolved(rule, key, "method not found")
		return
	}
	calls := f.Calls(func(c *ast.CallExpr) bool {
		se, ok := ast.Unparen(c.Fun).(*ast.SelectorExpr)
		return ok && se.Sel.Name == "WithAddedElements" && len(c.Args) == 1
	})
	if len(calls) == 0 {
		r.Unresolved(rule, key, "no WithAddedElements(initial state) found")
		return
	}
	for _, c := range calls {
		pt, _ := f.PointOf(c)
		k := f.KeyAt(c.Args[0], pt)
		if strings.Contains(k, ".Clone()") {
			r.Pass(rule, key, p.posStr(c.Pos()), "the initial state is "+k)
		} else {
			r.Fail(rule, key, p.posStr(c.Pos()), "the initial state handed to the new subscriber is "+k+", not a copy (Clone) of the set: a concurrent change made before the initial callback ran is part of it and is reported a second time by the writer")
		}
	}
}

// checkLoopVisitsAll: a walk over a snapshot that must reach EVERY entry (the shutdown walk over the
// workers) is never cut short: no break and no return inside the loops of the function.
func checkLoopVisitsAll(r *Reporter, p *Prog, pkg, typ, method, what string) {
	const rule = "walk/visits-every-entry"
	key := pkg + "." + typ + "." + method
	fd := p.FuncDecl(pkg, typ, method)
	if fd == nil || fd.Body == nil {
		r.Unresolved(rule, key, "method not found")
		return
	}
	nLoops := 0
	bad := ""
	var walk func(n ast.Node, inLoop bool)
	walk = func(n ast.Node, inLoop bool) {
		ast.Inspect(n, func(c ast.Node) bool {
			if c == nil || c == n {
				return true
			}
			switch x := c.(type) {
			case *ast.FuncLit:
				return false
			case *ast.RangeStmt:
				nLoops++
				walk(x.Body, true)
				return false
			case *ast.ForStmt:
				nLoops++
				walk(x.Body, true)
				return false
			case *ast.SelectStmt, *ast.SwitchStmt, *ast.TypeSwitchStmt:
				// an unlabelled break inside leaves the switch/select, not the loop: look for labelled ones and returns only
				ast.Inspect(x, func(m ast.Node) bool {
					switch y := m.(type) {
					case *ast.FuncLit:
						return false
					case *ast.BranchStmt:
						if inLoop && y.Tok == token.BREAK && y.Label != nil && bad == "" {
							bad = p.posStr(y.Pos()) + ": labelled break"
						}
					case *ast.ReturnStmt:
						if inLoop && bad == "" {
							bad = p.posStr(y.Pos()) + ": return"
						}
					}
					return true
				})
				return false
			case *ast.BranchStmt:
				if inLoop && x.Tok == token.BREAK && bad == "" {
					bad = p.posStr(x.Pos()) + ": break"
				}
				if inLoop && x.Tok == token.GOTO && bad == "" {
					bad = p.posStr(x.Pos()) + ": goto"
				}
			case *ast.ReturnStmt:
				if inLoop && bad == "" {
					bad = p.posStr(x.Pos()) + ": return"
				}
			}
			return true
		})
	}
	walk(fd.Body, false)
	switch {
	case nLoops == 0:
		r.Unresolved(rule, key, "no loop found (vacuous)")
	case bad != "":
		r.Fail(rule, key, bad, "the walk over "+what+" can end early ("+bad+"): the entries behind that point are never reached")
	default:
		r.Pass(rule, key, p.posStr(fd.Pos()), fmt.Sprintf("%d loop(s), none left by break, goto or return", nLoops))
	}
}

// checkCancelArmNeverReturns: in Poll, finding the awaited element cancelled means "take the next
// one": the arm that receives from the element's cancel channel never returns from Poll (a zero value
// returned from a non-empty queue ends an executor's worker, and the pending elements are never
// delivered).
func checkCancelArmNeverReturns(r *Reporter, p *Prog, pkg, typ, method string) {
	const rule = "poll/cancelled-element-is-skipped"
	key := pkg + "." + typ + "." + method
	fd := p.FuncDecl(pkg, typ, method)
	if fd == nil || fd.Body == nil {
		r.Unresolved(rule, key, "method not found")
		return
	}
	n := 0
	ast.Inspect(fd.Body, func(c ast.Node) bool {
		cc, ok := c.(*ast.CommClause)
		if !ok || cc.Comm == nil {
			return true
		}
		var rx ast.Expr
		switch s := cc.Comm.(type) {
		case *ast.ExprStmt:
			rx = s.X
		case *ast.AssignStmt:
			if len(s.Rhs) == 1 {
				rx = s.Rhs[0]
			}
		}
		u, isU := ast.Unparen(rx).(*ast.UnaryExpr)
		if !isU || u.Op != token.ARROW || !strings.HasSuffix(exprKey(u.X), ".cancel") {
			return true
		}
		n++
		bad := ""
		for _, st := range cc.Body {
			ast.Inspect(st, func(m ast.Node) bool {
				switch y := m.(type) {
				case *ast.FuncLit:
					return false
				case *ast.ReturnStmt:
					if bad == "" {
						bad = p.posStr(y.Pos())
					}
				}
				return true
			})
		}
		ck := fmt.Sprintf("%s cancel arm #%d", key, n)
		if bad != "" {
			r.Fail(rule, ck, bad, "Poll returns from the arm that found the awaited element cancelled: the caller gets the zero value although elements are queued (an executor's worker takes it for the end and exits; the pending elements are never delivered)")
		} else {
			r.Pass(rule, ck, p.posStr(cc.Pos()), "the arm moves on to the next element")
		}
		return true
	})
	if n == 0 {
		r.Advise(rule + ": " + key + ": no select arm on a cancel channel found (the rule does not apply to this shape)")
	}
}

// checkBackwardLoopsCoverZero: a backward index loop over a snapshot (`for i := len(x)-1; ...; i--`)
// whose body reads x[i] runs down to index 0: a condition `i > 0` (or `i >= 1`) drops the first entry.
func checkBackwardLoopsCoverZero(r *Reporter, p *Prog, pkg string, fds []*ast.FuncDecl) {
	const rule = "loop/backward-covers-index-zero"
	for _, fd := range fds {
		if fd == nil || fd.Body == nil {
			continue
		}
		ast.Inspect(fd.Body, func(n ast.Node) bool {
			fs, ok := n.(*ast.ForStmt)
			if !ok || fs.Post == nil || fs.Cond == nil || fs.Init == nil {
				return true
			}
			inc, isInc := fs.Post.(*ast.IncDecStmt)
			if !isInc || inc.Tok != token.DEC {
				return true
			}
			iv, isID := inc.X.(*ast.Ident)
			as, isAs := fs.Init.(*ast.AssignStmt)
			if !isID || !isAs || len(as.Lhs) != 1 || len(as.Rhs) != 1 || exprKey(as.Lhs[0]) != iv.Name {
				return true
			}
			ik := strings.TrimSuffix(strings.TrimPrefix(exprKey(as.Rhs[0]), "("), ")")
			if !strings.HasPrefix(ik, "len(") || !strings.HasSuffix(ik, ")-1") {
				return true
			}
			coll := strings.TrimSuffix(strings.TrimPrefix(ik, "len("), ")-1")
			// the body reads coll[i]
			reads := false
			ast.Inspect(fs.Body, func(m ast.Node) bool {
				if ix, ok := m.(*ast.IndexExpr); ok && exprKey(ix.X) == coll && exprKey(ix.Index) == iv.Name {
					reads = true
				}
				return true
			})
			if !reads {
				return true
			}
			key := funcKey(pkg, fd) + " for " + iv.Name + " over " + coll
			ck := strings.TrimSuffix(strings.TrimPrefix(exprKey(fs.Cond), "("), ")")
			switch ck {
			case iv.Name + ">=0", iv.Name + ">-1", "0<=" + iv.Name, "-1<" + iv.Name:
				r.Pass(rule, key, p.posStr(fs.Pos()), "runs down to index 0")
			default:
				r.Fail(rule, key, p.posStr(fs.Cond.Pos()), "the backward loop over "+coll+" runs while "+ck+": it must reach index 0 ("+iv.Name+" >= 0), otherwise the first entry of the snapshot is dropped")
			}
			return true
		})
	}
}

// checkNoAppendToSharedField: a key or prefix is never built with append(recv.field, ...) on a byte
// slice field of the receiver: when the field's backing array has spare capacity (every realm built by
// ConcatBytes has) the append writes into memory shared by all users of that view - concurrent readers
// holding only the read lock overwrite each other's keys. The repository's idiom is
// byteutils.ConcatBytes, which allocates.
func checkNoAppendToSharedField(r *Reporter, p *Prog, pkgs ...string) {
	const rule = "alias/no-append-to-shared-field"
	for _, pkg := range pkgs {
		pk := p.Pkg(pkg)
		if pk == nil {
			r.Unresolved(rule, pkg, "package not loaded")
			continue
		}
		info := pk.TypesInfo
		n := 0
		for _, fd := range p.AllFuncDecls(pkg) {
			if fd.Body == nil || fd.Recv == nil || strings.HasSuffix(p.Fset.Position(fd.Pos()).Filename, "_test.go") {
				continue
			}
			recv := recvObj(info, fd)
			ast.Inspect(fd.Body, func(m ast.Node) bool {
				c, ok := m.(*ast.CallExpr)
				if !ok || len(c.Args) < 2 {
					return true
				}
				if id, isID := ast.Unparen(c.Fun).(*ast.Ident); !isID || id.Name != "append" || info.Uses[id] != types.Universe.Lookup("append") {
					return true
				}
				se, isSel := ast.Unparen(c.Args[0]).(*ast.SelectorExpr)
				if !isSel || recv == nil || objOfIdent(info, se.X) != recv {
					return true
				}
				sel := info.Selections[se]
				if sel == nil || sel.Kind() != types.FieldVal {
					return true
				}
				if sl, isSlice := sel.Type().Underlying().(*types.Slice); !isSlice || !isByte(sl.Elem()) {
					return true
				}
				// appending back into the same field (x.f = append(x.f, ...)) is a mutation of the field, judged by the guard rules
				n++
				r.Fail(rule, funcKey(pkg, fd)+" append("+exprKey(se)+", ...)", p.posStr(c.Pos()), "append on the receiver's byte-slice field "+exprKey(se)+" can write into the field's backing array (spare capacity), which every user of this view shares: concurrent callers overwrite each other's keys; build the key with ConcatBytes")
				return true
			})
		}
		if n == 0 {
			r.Pass(rule, pkg, "-", "no key or prefix is built by appending to a byte-slice field of the receiver")
		}
	}
}

func isByte(t types.Type) bool {
	b, ok := t.Underlying().(*types.Basic)
	return ok && (b.Kind() == types.Uint8 || b.Kind() == types.Byte)
}

// checkWithRealmReturnsNewView: WithRealm REPLACES the realm: the view it returns has exactly the
// given realm, whatever it is - the empty realm of a nested view is the whole store. No path returns
// the receiver itself.
func checkWithRealmReturnsNewView(r *Reporter, p *Prog, pkg, typ string) {
	const rule = "realm/with-realm-replaces"
	key := pkg + "." + typ + ".WithRealm"
	fd := p.FuncDecl(pkg, typ, "WithRealm")
	if fd == nil || fd.Body == nil {
		r.Unresolved(rule, key, "method not found")
		return
	}
	info := p.Pkg(pkg).TypesInfo
	recv := recvObj(info, fd)
	bad, n := "", 0
	inspectNoLit(fd.Body, func(m ast.Node) bool {
		rs, ok := m.(*ast.ReturnStmt)
		if !ok || len(rs.Results) == 0 {
			return true
		}
		n++
		if recv != nil && objOfIdent(info, rs.Results[0]) == recv && bad == "" {
			bad = p.posStr(rs.Pos())
		}
		return true
	})
	switch {
	case n == 0:
		r.Unresolved(rule, key, "no return found")
	case bad != "":
		r.Fail(rule, key, bad, "WithRealm returns the receiver itself on some path: the caller asked for a view with the GIVEN realm (the empty realm of a nested view is the whole store) and gets the old realm - Get/Has miss, iteration and Clear act on the wrong range")
	default:
		r.Pass(rule, key, p.posStr(fd.Pos()), fmt.Sprintf("%d return(s), none hands back the receiver", n))
	}
}

// checkSettingsMergeMirror: encoder and decoder give the caller's type settings (field tag / option)
// precedence over the registered ones in the SAME direction: every `a.merge(b)` in an encode function
// has the same receiver/argument roles as those of the decode functions - otherwise a type registered
// with one length-prefix width and used with another in a tag is written and read with different shapes.
func checkSettingsMergeMirror(r *Reporter, p *Prog, pkg string) {
	const rule = "mirror/settings-merge-direction"
	dirs := map[string]map[string]string{"encode": {}, "decode": {}}
	for _, fd := range p.AllFuncDecls(pkg) {
		if fd.Body == nil || strings.HasSuffix(p.Fset.Position(fd.Pos()).Filename, "_test.go") {
			continue
		}
		ln := strings.ToLower(fd.Name.Name)
		side := ""
		switch {
		case strings.Contains(ln, "encode"):
			side = "encode"
		case strings.Contains(ln, "decode"):
			side = "decode"
		default:
			continue
		}
		ast.Inspect(fd.Body, func(m ast.Node) bool {
			c, ok := m.(*ast.CallExpr)
			if !ok || len(c.Args) != 1 {
				return true
			}
			se, ok := ast.Unparen(c.Fun).(*ast.SelectorExpr)
			if !ok || se.Sel.Name != "merge" {
				return true
			}
			dirs[side][exprKey(se.X)+".merge("+exprKey(c.Args[0])+")"] = p.posStr(c.Pos()) + " in " + fd.Name.Name
			return true
		})
	}
	key := pkg + " encode* <-> decode*"
	if len(dirs["encode"]) == 0 || len(dirs["decode"]) == 0 {
		r.Unresolved(rule, key, fmt.Sprintf("merge calls found: %d in encoders, %d in decoders (vacuous)", len(dirs["encode"]), len(dirs["decode"])))
		return
	}
	bad := ""
	for k, at := range dirs["decode"] {
		if _, ok := dirs["encode"][k]; !ok && bad == "" {
			bad = at + ": the decoder merges as " + k + ", no encoder does"
		}
	}
	for k, at := range dirs["encode"] {
		if _, ok := dirs["decode"][k]; !ok && bad == "" {
			bad = at + ": the encoder merges as " + k + ", no decoder does"
		}
	}
	if bad != "" {
		r.Fail(rule, key, "-", bad+": a type registered with one setting (a length-prefix width) and used with another in a field tag or option is written with one shape and read with the other")
	} else {
		var ks []string
		for k := range dirs["encode"] {
			ks = append(ks, k)
		}
		r.Pass(rule, key, "-", "encoders and decoders merge type settings in the same direction: "+strings.Join(ks, ", "))
	}
}

// checkExplicitOrderHonoured: a shutdown order the caller passed is the worker's order, whatever its
// sign: the assignment from order[0] is guarded by nothing but "an order was given" (and, optionally,
// "it is not the default 0"). A guard like order[0] > 0 folds negative orders into the default group:
// such a worker is stopped together with the order-0 workers instead of after them.
func checkExplicitOrderHonoured(r *Reporter, p *Prog, pkg, typ, method string) {
	const rule = "order/explicit-order-honoured"
	key := pkg + "." + typ + "." + method
	fd := p.FuncDecl(pkg, typ, method)
	if fd == nil || fd.Body == nil {
		r.Unresolved(rule, key, "method not found")
		return
	}
	isOrder0 := func(e ast.Expr) bool { return exprKey(e) == "order[0]" }
	n := 0
	var visit func(n ast.Node, guards []ast.Expr)
	report := func(at token.Pos, guards []ast.Expr) {
		n++
		bad := ""
		for _, g := range guards {
			for _, atom := range splitAnd(g) {
				k := strings.TrimSuffix(strings.TrimPrefix(exprKey(atom), "("), ")")
				switch k {
				case "len(order)>0", "len(order)!=0", "len(order)>=1", "0<len(order)", "order[0]!=0", "0!=order[0]":
				default:
					if strings.Contains(k, "order") && bad == "" {
						bad = k
					}
				}
			}
		}
		if bad != "" {
			r.Fail(rule, key, p.posStr(at), "the caller's shutdown order is taken only when "+bad+": an explicit order that fails this test (a negative one) is replaced by the default 0, and the worker is stopped together with the order-0 workers instead of after them")
		} else {
			r.Pass(rule, key, p.posStr(at), "order[0] is the worker's order whenever an order was given")
		}
	}
	visit = func(nd ast.Node, guards []ast.Expr) {
		ast.Inspect(nd, func(c ast.Node) bool {
			if c == nil || c == nd {
				return true
			}
			switch x := c.(type) {
			case *ast.FuncLit:
				return false
			case *ast.IfStmt:
				if x.Init != nil {
					visit(x.Init, guards)
				}
				visit(x.Body, append(append([]ast.Expr{}, guards...), x.Cond))
				if x.Else != nil {
					visit(x.Else, guards)
				}
				return false
			case *ast.AssignStmt:
				for _, rh := range x.Rhs {
					if isOrder0(ast.Unparen(rh)) {
						report(x.Pos(), guards)
					}
				}
			}
			return true
		})
	}
	visit(fd.Body, nil)
	if n == 0 {
		r.Advise(rule + ": " + key + ": no assignment from order[0] found (the rule does not apply to this shape)")
	}
}

// splitAnd splits a condition into its && conjuncts.
func splitAnd(e ast.Expr) []ast.Expr {
	if be, ok := ast.Unparen(e).(*ast.BinaryExpr); ok && be.Op == token.LAND {
		return append(splitAnd(be.X), splitAnd(be.Y)...)
	}
	return []ast.Expr{e}
}

// checkBatchSizeTrigger: BatchCollector.Add reports "batch size reached" as soon as the number of
// collected objects EQUALS the batch size (>= or ==): the writer commits then, before the next Add. With
// a strict > the collector accepts one object more than its pre-sized store holds - the writer
// goroutine panics on the index, the batch is never committed and nobody is told.
func checkBatchSizeTrigger(r *Reporter, p *Prog, pkg string) {
	const rule = "batch/size-trigger-at-capacity"
	key := pkg + ".BatchCollector.Add"
	f := p.CFGOf(pkg, "BatchCollector", "Add")
	if f == nil {
		r.Unresolved(rule, key, "method not found")
		return
	}
	n := 0
	for _, pt := range f.Find(func(n ast.Node) bool { _, ok := n.(*ast.ReturnStmt); return ok }) {
		rs := f.nodeAt(pt).(*ast.ReturnStmt)
		if len(rs.Results) != 1 {
			continue
		}
		k := strings.TrimSuffix(strings.TrimPrefix(f.KeyAt(rs.Results[0], pt), "("), ")")
		if !strings.Contains(k, "batchSize") {
			continue
		}
		n++
		switch {
		case strings.Contains(k, ">=") && strings.HasSuffix(k, ".batchSize"), strings.Contains(k, "==") && strings.HasSuffix(k, ".batchSize"),
			strings.Contains(k, ".batchSize<="), strings.Contains(k, ".batchSize=="):
			r.Pass(rule, key, f.PosOf(pt), "reports the batch as full when "+k)
		default:
			r.Fail(rule, key, f.PosOf(pt), "Add reports the batch as full when "+k+": it must do so as soon as the count equals the batch size (>=), otherwise one more object is accepted than the collector's store holds and the writer goroutine panics on the index - the batch is never committed")
		}
	}
	if n == 0 {
		r.Advise(rule + ": " + key + ": no return that compares with batchSize found (the rule does not apply to this shape)")
	}
}

// checkFailureBranchReportsOwnError: inside the failure branch of one error (`if valueErr != nil {`)
// the error that is recorded or returned is not a DIFFERENT error variable that is known to be nil at
// that point (it was tested by an earlier `if keyErr != nil { ...; return }` of the same block): the
// failure would be reported as success - a decode error swallowed, the iteration just stops.
func checkFailureBranchReportsOwnError(r *Reporter, p *Prog, pkg string, recvs ...string) {
	const rule = "err/failure-branch-reports-its-own-error"
	pk := p.Pkg(pkg)
	if pk == nil {
		r.Unresolved(rule, pkg, "package not loaded")
		return
	}
	info := pk.TypesInfo
	isErr := func(o types.Object) bool {
		return o != nil && o.Type() != nil && types.Identical(o.Type(), types.Universe.Lookup("error").Type())
	}
	nilTested := func(cond ast.Expr) types.Object {
		be, ok := ast.Unparen(cond).(*ast.BinaryExpr)
		if !ok || be.Op != token.NEQ {
			return nil
		}
		for _, pr := range [][2]ast.Expr{{be.X, be.Y}, {be.Y, be.X}} {
			if isNil(info, pr[1]) {
				if o := objOfIdent(info, pr[0]); isErr(o) {
					return o
				}
			}
		}
		return nil
	}
	terminates := func(b *ast.BlockStmt) bool {
		if len(b.List) == 0 {
			return false
		}
		switch x := b.List[len(b.List)-1].(type) {
		case *ast.ReturnStmt:
			return true
		case *ast.BranchStmt:
			return x.Tok == token.CONTINUE || x.Tok == token.BREAK || x.Tok == token.GOTO
		case *ast.ExprStmt:
			if c, ok := x.X.(*ast.CallExpr); ok {
				if id, ok := c.Fun.(*ast.Ident); ok && id.Name == "panic" {
					return true
				}
			}
		}
		return false
	}
	nBranches := 0
	for _, fd := range p.AllFuncDecls(pkg) {
		if fd.Body == nil || strings.HasSuffix(p.Fset.Position(fd.Pos()).Filename, "_test.go") {
			continue
		}
		if len(recvs) > 0 {
			ok := false
			for _, rc := range recvs {
				if fd.Recv != nil && recvTypeName(fd) == rc {
					ok = true
				}
			}
			if !ok {
				continue
			}
		}
		var block func(b *ast.BlockStmt, known map[types.Object]bool)
		scanBranch := func(own types.Object, body *ast.BlockStmt, known map[types.Object]bool) {
			nBranches++
			ast.Inspect(body, func(m ast.Node) bool {
				var used []ast.Expr
				switch x := m.(type) {
				case *ast.FuncLit:
					return false
				case *ast.AssignStmt:
					for i, l := range x.Lhs {
						if i < len(x.Rhs) && len(x.Lhs) == len(x.Rhs) && isErr(objOfIdent(info, l)) {
							used = append(used, x.Rhs[i])
						}
					}
				case *ast.ReturnStmt:
					used = append(used, x.Results...)
				}
				for _, u := range used {
					if o := objOfIdent(info, u); o != nil && o != own && known[o] {
						r.Fail(rule, funcKey(pkg, fd)+" "+own.Name()+" branch", p.posStr(u.Pos()), "in the failure branch of "+own.Name()+" the error recorded/returned is "+o.Name()+", which is nil here (it was tested and found nil just before): the failure is reported as success")
					}
				}
				return true
			})
		}
		block = func(b *ast.BlockStmt, known map[types.Object]bool) {
			known = copyObjSet(known)
			for _, st := range b.List {
				// a re-assignment of a known-nil variable ends the knowledge
				if as, ok := st.(*ast.AssignStmt); ok {
					for _, l := range as.Lhs {
						delete(known, objOfIdent(info, l))
					}
				}
				if ifs, ok := st.(*ast.IfStmt); ok {
					if ifs.Init != nil {
						if as, ok := ifs.Init.(*ast.AssignStmt); ok {
							for _, l := range as.Lhs {
								delete(known, objOfIdent(info, l))
							}
						}
					}
					if o := nilTested(ifs.Cond); o != nil {
						scanBranch(o, ifs.Body, known)
						// function literals in the init statement (a callback handed to an iteration) and the nested blocks
						if ifs.Init != nil {
							ast.Inspect(ifs.Init, func(m ast.Node) bool {
								if fl, ok := m.(*ast.FuncLit); ok {
									block(fl.Body, nil)
									return false
								}
								return true
							})
						}
						block(ifs.Body, known)
						if eb, ok := ifs.Else.(*ast.BlockStmt); ok {
							block(eb, known)
						}
						if ifs.Else == nil && terminates(ifs.Body) && ifs.Init == nil {
							known[o] = true
						}
						continue
					}
				}
				// nested blocks and function literals inherit what is known (literals: only their own tests)
				ast.Inspect(st, func(m ast.Node) bool {
					switch x := m.(type) {
					case *ast.FuncLit:
						block(x.Body, nil)
						return false
					case *ast.BlockStmt:
						block(x, known)
						return false
					}
					return true
				})
			}
		}
		block(fd.Body, nil)
	}
	if nBranches == 0 {
		r.Unresolved(rule, pkg, "no failure branch found (vacuous)")
	} else {
		r.Pass(rule, pkg+" (all failure branches)", "-", fmt.Sprintf("%d failure branches examined: none records or returns another, known-nil error variable", nBranches))
	}
}

func copyObjSet(m map[types.Object]bool) map[types.Object]bool {
	out := map[types.Object]bool{}
	for k, v := range m {
		out[k] = v
	}
	return out
}

// checkNotifyLoopsVisitAll: a notification loop (a range loop whose body takes a subscriber's
// execution lock) reaches every subscriber of the snapshot: a subscriber that cannot be locked (it
// unsubscribed meanwhile) is skipped, the loop is not left - no break, goto or return in its body.
func checkNotifyLoopsVisitAll(r *Reporter, p *Prog, pkg string) {
	const rule = "notify/loop-visits-every-subscriber"
	n := 0
	for _, fd := range p.AllFuncDecls(pkg) {
		if fd.Body == nil || strings.HasSuffix(p.Fset.Position(fd.Pos()).Filename, "_test.go") {
			continue
		}
		ast.Inspect(fd.Body, func(m ast.Node) bool {
			rs, ok := m.(*ast.RangeStmt)
			if !ok {
				return true
			}
			locks := containsMatch(rs.Body, func(c ast.Node) bool {
				ce, ok := c.(*ast.CallExpr)
				if !ok {
					return false
				}
				se, ok := ast.Unparen(ce.Fun).(*ast.SelectorExpr)
				return ok && se.Sel.Name == "LockExecution"
			})
			if !locks {
				return true
			}
			n++
			bad := ""
			var walk func(nd ast.Node, breakLeaves bool)
			walk = func(nd ast.Node, breakLeaves bool) {
				ast.Inspect(nd, func(c ast.Node) bool {
					if c == nil || c == nd {
						return true
					}
					switch x := c.(type) {
					case *ast.FuncLit:
						return false
					case *ast.ForStmt, *ast.RangeStmt, *ast.SwitchStmt, *ast.TypeSwitchStmt, *ast.SelectStmt:
						walk(x, false)
						return false
					case *ast.BranchStmt:
						if bad == "" && (x.Tok == token.GOTO || x.Tok == token.BREAK && (breakLeaves || x.Label != nil)) {
							bad = p.posStr(x.Pos()) + ": " + x.Tok.String()
						}
					case *ast.ReturnStmt:
						if bad == "" {
							bad = p.posStr(x.Pos()) + ": return"
						}
					}
					return true
				})
			}
			walk(rs.Body, true)
			key := funcKey(pkg, fd) + " notification loop"
			if bad != "" {
				r.Fail(rule, key, bad, "the notification loop is left early ("+bad+"): the subscribers behind that point of the snapshot never see this update")
			} else {
				r.Pass(rule, key, p.posStr(rs.Pos()), "every subscriber of the snapshot is reached (skipped at most, by not invoking it)")
			}
			return true
		})
	}
	if n == 0 {
		r.Unresolved(rule, pkg, "no notification loop (range loop taking LockExecution) found (vacuous)")
	}
}

// checkEndAccessor: an operation on ONE end of a sequence does not consult the other end's pointer:
// Tail reads o.tail only, Head o.head only; MoveToFront decides "already there" by the front pointer,
// MoveToBack by the back pointer. (A guard copied from the sibling makes MoveToFront(Back()) a no-op;
// Tail returns the last key with the first value.)
func checkEndAccessor(r *Reporter, p *Prog, pkg, typ, method, forbiddenSuffix, why string) {
	const rule = "accessor/end-consistent"
	key := pkg + "." + typ + "." + method
	fd := p.FuncDecl(pkg, typ, method)
	if fd == nil || fd.Body == nil {
		r.Unresolved(rule, key, "method not found")
		return
	}
	bad := ""
	ast.Inspect(fd.Body, func(m ast.Node) bool {
		if se, ok := m.(*ast.SelectorExpr); ok && bad == "" && strings.HasSuffix(exprKey(se), forbiddenSuffix) {
			bad = p.posStr(se.Pos())
		}
		return true
	})
	if bad != "" {
		r.Fail(rule, key, bad, method+" consults "+strings.TrimPrefix(forbiddenSuffix, ".")+": "+why)
	} else {
		r.Pass(rule, key, p.posStr(fd.Pos()), method+" does not consult "+strings.TrimPrefix(forbiddenSuffix, "."))
	}
}

// checkDiffBeforeReplace: the reactive set's replace reports "added = new minus OLD contents": the
// membership of the new elements is tested against the value BEFORE the value is replaced. Computed
// afterwards every new element is already a member and nothing is reported added - a subscriber that
// folds the reported mutations no longer reproduces the set.
func checkDiffBeforeReplace(r *Reporter, p *Prog, pkg, typ, method string) {
	const rule = "set/added-computed-against-old-contents"
	key := pkg + "." + typ + "." + method
	f := p.CFGOf(pkg, typ, method)
	if f == nil {
		r.Unresolved(rule, key, "method not found")
		return
	}
	info := p.Pkg(pkg).TypesInfo
	isValueCall := func(n ast.Node, name string) bool {
		c, ok := n.(*ast.CallExpr)
		if !ok {
			return false
		}
		se, ok := ast.Unparen(c.Fun).(*ast.SelectorExpr)
		return ok && se.Sel.Name == name && fieldSel(info, se.X, "value")
	}
	reps := f.Calls(func(c *ast.CallExpr) bool { return isValueCall(c, "Replace") })
	// the readers of the old membership: calls that test value.Has, directly or in a function literal they are handed
	readsOldCall := func(n ast.Node) bool {
		c, ok := n.(*ast.CallExpr)
		if !ok || isValueCall(n, "Replace") {
			return false
		}
		hit := false
		ast.Inspect(c, func(m ast.Node) bool { // function literals included: the test sits in the filter's predicate
			if m != nil && isValueCall(m, "Has") {
				hit = true
			}
			return !hit
		})
		return hit
	}
	readsOld := func(n ast.Node) bool { return readsOldCall(n) || containsMatch(n, readsOldCall) }
	readers := f.Calls(func(c *ast.CallExpr) bool { return readsOldCall(c) })
	if len(reps) == 0 || len(readers) == 0 {
		r.Advise(rule + ": " + key + ": no value.Replace / value.Has pair found (the rule does not apply to this shape)")
		return
	}
	for _, rc := range reps {
		rp, ok := f.PointOf(rc)
		if !ok {
			r.Unresolved(rule, key, "value.Replace not on the graph")
			continue
		}
		if w, found := f.PathFromEntryAvoiding(rp, readsOld, nil); found {
			r.Fail(rule, key, f.PosOf(rp), "the value is replaced on a path on which the membership of the new elements has not been tested yet: tested afterwards, every new element is already a member and none is reported as added", w...)
		} else {
			r.Pass(rule, key, f.PosOf(rp), "the added elements are determined against the old contents before value.Replace")
		}
	}
}

// checkAbsentImpliesNoCachedValue: the TypedValue cache keeps "known absent" and "cached value"
// consistent: wherever the presence flag is set to the false constant, the cached value is nil - it was
// just tested nil, or it is set to nil on the same path. (Compute trusts a cached value without looking
// at the flag: after a Delete that left it in place it computes from the deleted value.)
func checkAbsentImpliesNoCachedValue(r *Reporter, p *Prog, pkg, typ string) {
	const rule = "cache/absent-implies-no-cached-value"
	info := p.Pkg(pkg).TypesInfo
	n := 0
	for _, fd := range p.Methods(pkg, typ) {
		if fd.Body == nil {
			continue
		}
		var f *FuncCFG
		isNilAssign := func(nd ast.Node) bool {
			as, ok := nd.(*ast.AssignStmt)
			if !ok {
				return false
			}
			for i, l := range as.Lhs {
				if fieldSel(info, l, "valueCached") && i < len(as.Rhs) && isNil(info, as.Rhs[i]) {
					return true
				}
			}
			return false
		}
		hasFalse := func(nd ast.Node) bool {
			as, ok := nd.(*ast.AssignStmt)
			if !ok {
				return false
			}
			for i, l := range as.Lhs {
				if fieldSel(info, l, "hasCached") && i < len(as.Rhs) && strings.HasSuffix(exprKey(as.Rhs[i]), "falsePtr") {
					return true
				}
			}
			return false
		}
		if !containsMatch(fd.Body, hasFalse) {
			continue
		}
		f = newFuncCFG(p, info, fd.Body, funcKey(pkg, fd)) // with the cache accessors expanded: the nil test may sit in one
		nilEdges := f.RelEdgesAt(func(rel Rel) bool {
			return rel.Op == "==" && (strings.HasSuffix(rel.L, ".valueCached") && rel.R == "nil" || strings.HasSuffix(rel.R, ".valueCached") && rel.L == "nil")
		})
		isNilEdge := func(e Edge) bool {
			for _, ne := range nilEdges {
				if ne == e {
					return true
				}
			}
			return false
		}
		for _, pt := range f.Find(hasFalse) {
			n++
			key := funcKey(pkg, fd) + " hasCached=false"
			_, before := f.PathFromEntryAvoiding(pt, isNilAssign, isNilEdge)
			_, after := f.PathToExitAvoiding(pt, isNilAssign)
			if before && after {
				r.Fail(rule, key, f.PosOf(pt), "the value is marked absent while a cached value may still be in place (not tested nil before, not cleared on the same path): Compute trusts the cached value without looking at the flag and computes from a deleted value")
			} else {
				r.Pass(rule, key, f.PosOf(pt), "the cached value is nil wherever the value is marked absent")
			}
		}
	}
	if n == 0 {
		r.Advise(rule + ": " + pkg + "." + typ + ": no assignment hasCached = &falsePtr found (the rule does not apply to this shape)")
	}
}
