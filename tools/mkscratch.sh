#!/bin/sh
# usage: mkscratch.sh <dir> [repo-root]   -- creates a scratch Go module in <dir> that can import every
# hive.go module from the working tree (replace directives), offline. Used only to demonstrate findings.
set -e
d=$1; repo=${2:-/repo}
mkdir -p "$d"; cd "$d"
{
 echo "module scratch"; echo; echo "go 1.22"; echo
 for m in $(cd $repo && ls -d */ | tr -d /); do
   [ -f $repo/$m/go.mod ] || continue
   mp=$(sed -n 's/^module //p' $repo/$m/go.mod)
   case $mp in */v2) echo "require $mp v2.0.0-00010101000000-000000000000";; *) echo "require $mp v0.0.0-00010101000000-000000000000";; esac
   echo "replace $mp => $repo/$m"
 done
} > go.mod
cat $repo/*/go.sum | sort -u > go.sum
