#!/bin/bash
# Development aid: confirms a sub-agent's behaviour-preserving refactoring (builds, existing tests pass)
# in its scratch worktree and stores it as /verif/benign/<id>-<i>/ (patch.diff, meta.json).
# usage: [BENBASE=/tmp/ben2 BENOFFSET=5] benverify.sh C04 1   (worktree $BENBASE/C04, results in $BENBASE/C04-out); SKIP=regex to skip flaky tests
set -u
id=$1; i=$2; base=${BENBASE:-/tmp/ben}; wt=$base/$id; out=$base/$id-out
export GOFLAGS=-mod=mod GOPROXY=off GOSUMDB=off GOTOOLCHAIN=local; unset GOWORK
meta=$out/meta$i.json; mod=$(jq -r .module $meta)
clean() { git -C $wt checkout -- . && git -C $wt clean -fdq; }
fail() { echo "BENVERIFY $id-$i REJECTED: $1"; clean; exit 1; }
clean
[ -s $out/patch$i.diff ] || fail "no patch"
grep -q "_test.go" <(grep '^+++ ' $out/patch$i.diff) && fail "patch touches a test file"
git -C $wt apply $out/patch$i.diff || fail "patch does not apply"
(cd $wt/$mod && go build ./... ) || fail "does not build"
(cd $wt/$mod && go test -vet=off -count=1 -timeout 25m ${SKIP:+-skip "$SKIP"} ./... >$out/verify$i.tests.log 2>&1) || { grep -E "^(--- FAIL|FAIL|panic)" $out/verify$i.tests.log | head -5; fail "existing tests fail"; }
clean
dst=/verif/benign/$id-$((i+${BENOFFSET:-0})); mkdir -p $dst && cp $out/patch$i.diff $dst/patch.diff && cp $meta $dst/meta.json
echo "BENVERIFY $id-$i CONFIRMED -> $dst"
