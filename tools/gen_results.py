#!/usr/bin/env python3
"""Regenerates the generated tables of DESIGN.md (between <!-- BEGIN gen:x --> / <!-- END gen:x -->)
from known_findings.json, evidence/*.json and seeded/RESULTS.json (written by
`tools/seedrun.py --json seeded/RESULTS.json`)."""
import json, re, os, collections
V='/verif'
kf=json.load(open(V+'/known_findings.json'))['findings']
def esc(s): return s.replace('|','\\|').replace('\n',' ')
# 8.1 fixes (one row per commit)
by=collections.OrderedDict()
for e in kf:
    if e.get('status')=='fixed':
        by.setdefault(e['commit'],[]).append(e)
rows=['| commit | property / rule | what was wrong (demonstration under findings/) |','|---|---|---|']
for c,es in by.items():
    pr=', '.join(sorted(set('%s %s'%(e['property'],e['rule']) for e in es)))
    rows.append('| `%s` | %s | %s |'%(c,esc(pr),esc(es[0]['what'])))
fixes='\n'.join(rows)
# 8.2 known
rows=['| property / rule | construct | what fails, why it is not repaired |','|---|---|---|']
seen=set()
for e in kf:
    if e.get('status')=='known':
        rows.append('| %s %s | %s | %s |'%(e['property'],e['rule'],esc(e['key']),esc(e['what'])))
known='\n'.join(rows)
# 8.4 per property
rows=['| id | obligations (quick) | known findings | rules (instances) |','|---|---|---|---|']
for i in range(1,21):
    pid='C%02d'%i
    d=json.load(open('%s/evidence/%s.json'%(V,pid)))
    cov=d['coverage']
    ri=cov.get('rule_instances') or {}
    rows.append('| %s | %s | %s | %s |'%(pid,cov.get('obligations'),len(cov.get('known_findings_matched') or []),esc(', '.join('%s (%d)'%(k,v) for k,v in sorted(ri.items())))))
perprop='\n'.join(rows)
# 8.5 seeds
rows=['| change | what it does | caught by (rules of its own property that fire) |','|---|---|---|']
res=json.load(open(V+'/seeded/RESULTS.json'))
for r in sorted(res,key=lambda r:r['name']):
    rows.append('| %s | %s | %s%s |'%(r['name'],esc(r['title'][:150]),'' if r['status']=='CAUGHT' else '**'+r['status']+'** ',esc(', '.join(r['rules']))))
seeds='\n'.join(rows)
s=open(V+'/DESIGN.md').read()
for name,txt in [('fixes',fixes),('known',known),('perprop',perprop),('seeds',seeds)]:
    pat=re.compile(r'(<!-- BEGIN gen:%s -->\n).*?(<!-- END gen:%s -->)'%(name,name),re.S)
    assert pat.search(s), name
    s=pat.sub(lambda m: m.group(1)+txt+'\n'+m.group(2), s)
open(V+'/DESIGN.md','w').write(s)
print('DESIGN.md tables regenerated')
