#!/usr/bin/env python3
"""Generates /verif/MANIFEST.json from tools/claims.json (one entry per claimed property) and
properties.jsonl (every property not claimed is listed under not_applicable with its reason)."""
import json, os
V='/verif'
claims=json.load(open(os.path.join(V,'tools','claims.json')))
props=[json.loads(l) for l in open(os.path.join(V,'properties.jsonl'))]
checks=[]; na=[]
for p in props:
    c=claims['claimed'].get(p['id'])
    if c:
        checks.append({
          "property_id":p['id'],
          "quick_cmd":"./check %s quick"%p['id'],
          "thorough_cmd":"./check %s thorough"%p['id'],
          "evidence_file":"/verif/evidence/%s.json"%p['id'],
          "replay_cmd_template":"cat {path}; ./check %s quick"%p['id'],
          "engine":"hivecheck",
          "level_claimed":{"category":"other","text":c['text'],"design_ref":"DESIGN.md §3 "+p['id']},
          "level_note":c['note'],
          "technique":c['technique'],
        })
    else:
        na.append({"property_id":p['id'],"reason":claims['not_applicable'].get(p['id'],"no sound static clause built yet for this property")})
m={
 "version":1,
 "setup_cmd":"cd /verif/hivecheck && GOFLAGS=-mod=mod GOPROXY=off GOSUMDB=off GOTOOLCHAIN=local GOWORK=off go build -o /verif/.bin/hivecheck .",
 "hooks":{"guard":"verif","enable":"go build/test -tags verif (only the dynamic demonstrations under findings/ use the hooks; the static checks analyse the default build and, in the thorough tier, -tags verif)","baseline_off_cmd":"cd /repo && for m in $(find . -name go.mod | sort | xargs -n1 dirname); do (cd $m && GOFLAGS=-mod=mod GOPROXY=off go test -vet=off -count=1 -timeout 25m ./...) || exit 1; done","source_commits":["56b68c4"],"add_only":True},
 "engines":[{"name":"hivecheck","path":"/verif/hivecheck","serves_properties":[c['property_id'] for c in checks],"kind_free_text":"repo-specific static analyser (go/packages + go/types + go/cfg lockset, path, dominance and typestate rules) over the current /repo tree; never executes hive.go code"}],
 "checks":checks,
 "not_applicable":na,
 "notes":claims.get('notes',''),
}
json.dump(m,open(os.path.join(V,'MANIFEST.json'),'w'),indent=1); open(os.path.join(V,'MANIFEST.json'),'a').write('\n')
print('claimed',len(checks),'not_applicable',len(na))
