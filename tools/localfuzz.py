"""Development aid (not a registered check): renames, one at a time and within one function only, a
parameter or local variable whose name occurs inside a string literal of a hivecheck rule, on a scratch
copy, and runs the checks of the properties anchored in that file: renaming a local must not change a
verdict. (Textual: a local that shares its spelling with a field or method used in the same function is
renamed together with it; those runs do not compile and are artefacts.)"""
import json, re, subprocess, glob, os, sys, concurrent.futures, tempfile, shutil
ENV=dict(os.environ, GOFLAGS='-mod=mod', GOPROXY='off', GOSUMDB='off', GOTOOLCHAIN='local'); ENV.pop('GOWORK',None)
src=''.join(open(f).read() for f in glob.glob('/verif/hivecheck/prop_*.go')+glob.glob('/verif/hivecheck/rules_*.go'))
words=set(re.findall(r'[A-Za-z_][A-Za-z0-9_]*', ' '.join(re.findall(r'"((?:[^"\\]|\\.)*)"', src))))
props={}
for l in open('/verif/properties.jsonl'):
    d=json.loads(l)
    for f in d['anchors']['files']: props.setdefault(f,[]).append(d['id'])
jobs=[]
for f,ps in sorted(props.items()):
    path='/repo/'+f
    if not os.path.exists(path): continue
    lines=open(path).read().split('\n')
    i=0
    while i<len(lines):
        if lines[i].startswith('func '):
            j=i
            while j<len(lines) and lines[j]!='}': j+=1
            body='\n'.join(lines[i:j+1])
            names=set()
            m=re.match(r'func (\([^)]*\) )?[A-Za-z0-9_]+(\[[^\]]*\])?\(([^)]*)\)', lines[i])
            if m:
                for part in m.group(3).split(','):
                    t=part.strip().split(' ')
                    if t and re.match(r'^[a-z][A-Za-z0-9]*$', t[0]): names.add(t[0])
            for mm in re.finditer(r'\b([a-z][A-Za-z0-9]*)(, [a-z][A-Za-z0-9]*)* :=', body):
                for n in re.findall(r'[a-z][A-Za-z0-9]*', mm.group(0)): names.add(n)
            for n in sorted(names):
                if len(n)>=3 and n in words and not re.search(r'\.'+n+r'\b', body):
                    for p in ps: jobs.append((p,f,i,j,n))
            i=j
        i+=1
print(len(jobs),'jobs'); sys.stdout.flush()
def run(job):
    p,f,i,j,n=job
    t=tempfile.mkdtemp(prefix='hcloc-',dir='/tmp')
    try:
        subprocess.run(['rsync','-a','--exclude','.git','/repo/',t+'/repo/'],check=True)
        os.makedirs(t+'/verif'); shutil.copy('/verif/known_findings.json',t+'/verif')
        path=t+'/repo/'+f; lines=open(path).read().split('\n')
        for k in range(i,j+1): lines[k]=re.sub(r'\b'+n+r'\b', n+'Ren', lines[k])
        open(path,'w').write('\n'.join(lines))
        mod=f.split('/')[0]
        b=subprocess.run(['go','build','./...'],cwd=t+'/repo/'+mod,env=ENV,capture_output=True,text=True)
        if b.returncode!=0: return job,'nocompile',''
        e=dict(ENV,HIVECHECK_REPO=t+'/repo',HIVECHECK_VERIF=t+'/verif',HIVECHECK_WORK=t+'/work')
        q=subprocess.run([os.environ.get('HIVECHECK_BIN','/verif/.bin/hivecheck'),'-property',p,'-tier','quick'],env=e,capture_output=True,text=True)
        failed=[l.strip() for l in (q.stdout+q.stderr).splitlines() if l.strip().startswith('FAILED')]
        return job,('ok' if q.returncode==0 else 'ALARM'),'\n'.join(failed[:3])
    finally: shutil.rmtree(t,ignore_errors=True)
bad=nc=0
with concurrent.futures.ThreadPoolExecutor(int(os.environ.get('J','6'))) as ex:
    for job,st,info in ex.map(run,jobs):
        if st=='nocompile': nc+=1
        if st=='ALARM':
            bad+=1; print(job[0],job[1],'line',job[2]+1,job[4],'->',job[4]+'Ren'); print('   '+info[:600].replace('\n','\n   ')); sys.stdout.flush()
print(len(jobs),'local renames,',nc,'did not compile (artefacts),',bad,'alarmed')
