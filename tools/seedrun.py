#!/usr/bin/env python3
"""Development aid (not a registered check): runs hivecheck against every seeded change under
/verif/seeded/<name>/patch.diff on a scratch copy of /repo (outside /repo and /verif, removed
afterwards) and prints which obligations fire.
usage: seedrun.py [-k substr] [-j N] [--all-props]
A seeded change counts as caught when the check of its own property (meta.json "property")
exits 1 with at least one FAILED obligation; the FAILED lines are printed so that the rule can
be compared with the seeded mechanism. Equivalent to `git -C /repo apply patch.diff; ./check <id>;
git -C /repo checkout -- .`, but safe to run in parallel."""
import re, sys, os, json, shutil, subprocess, tempfile, argparse, glob, concurrent.futures
ENV=dict(os.environ, GOFLAGS='-mod=mod', GOPROXY='off', GOSUMDB='off', GOTOOLCHAIN='local')
ENV.pop('GOWORK',None)
PROPS=['C%02d'%i for i in range(1,21)]
PROPMODS={}
for _l in open('/verif/properties.jsonl'):
    _d=json.loads(_l); PROPMODS[_d['id']]=set(f.split('/')[0] for f in _d['anchors']['files'])
PROPMODS['C12']|={'ds','core','runtime','web'}; PROPMODS['C18']|={'ds','runtime'}; PROPMODS['C01']|={'ds','kvstore'}; PROPMODS['C03']|={'kvstore'}; PROPMODS['C14']|={'ds'}; PROPMODS['C15']|={'ds'}; PROPMODS['C16']|={'ds'}
BENIGN=False
def run(d, allprops):
    meta=json.load(open(os.path.join(d,'meta.json')))
    name=os.path.basename(d)
    t=tempfile.mkdtemp(prefix='hcseed-', dir='/tmp')
    try:
        repo=os.path.join(t,'repo'); ver=os.path.join(t,'verif')
        shutil.copytree('/repo', repo, ignore=shutil.ignore_patterns('.git'))
        os.makedirs(ver); shutil.copy('/verif/known_findings.json', ver)
        p=subprocess.run(['patch','-p1','-s','-i',os.path.join(d,'patch.diff')],cwd=repo,capture_output=True,text=True)
        if p.returncode!=0: return name,meta,'BROKEN','patch does not apply: '+p.stdout[-300:]+p.stderr[-300:],[]
        res=[]
        props=PROPS if allprops else [meta['property']]
        if BENIGN:
            touched=set(l.split()[1].split('/')[1] for l in open(os.path.join(d,'patch.diff')) if l.startswith('+++ b/'))
            props=[q for q in PROPS if q==meta['property'] or PROPMODS[q]&touched]
        for prop in props:
            e=dict(ENV, HIVECHECK_REPO=repo, HIVECHECK_VERIF=ver, HIVECHECK_WORK=os.path.join(t,'work-'+prop))
            try:
                q=subprocess.run([os.environ.get('HIVECHECK_BIN','/verif/.bin/hivecheck'),'-property',prop,'-tier','quick'],env=e,capture_output=True,text=True,timeout=600)
            except subprocess.TimeoutExpired:
                res.append((prop,'ERROR',['checker did not finish within 600 s (hang)'])); continue
            failed=[l.strip() for l in (q.stdout+q.stderr).splitlines() if l.strip().startswith('FAILED')]
            if q.returncode not in (0,1) or (q.returncode==1 and not failed):
                res.append((prop,'ERROR',[(q.stdout+q.stderr)[-500:]]))
            elif q.returncode==1: res.append((prop,'caught',failed))
            else: res.append((prop,'silent',[]))
        own=[r for r in res if r[0]==meta['property']][0]
        if BENIGN:
            sts=set(r[1] for r in res)
            return name,meta,('ERROR' if 'ERROR' in sts else 'CAUGHT' if 'caught' in sts else 'MISSED'),'',res
        return name,meta,('CAUGHT' if own[1]=='caught' else 'MISSED' if own[1]=='silent' else 'ERROR'),'',res
    finally:
        shutil.rmtree(t,ignore_errors=True)
ap=argparse.ArgumentParser(); ap.add_argument('-k',default=''); ap.add_argument('-j',type=int,default=4); ap.add_argument('--all-props',action='store_true'); ap.add_argument('--benign',action='store_true',help='run the behaviour-preserving corpus /verif/benign: every check must stay silent'); ap.add_argument('--dir',default='',help='corpus directory under /verif (default: seeded, or benign with --benign)'); ap.add_argument('--json',default='',help='write per-change results (status, rules that fired) to this file')
a=ap.parse_args()
BENIGN=a.benign
dirs=sorted(d for d in glob.glob('/verif/%s/*'%(a.dir or ('benign' if a.benign else 'seeded'))) if os.path.exists(os.path.join(d,'patch.diff')) and re.search(a.k, d))
missed=0
JS=[]
with concurrent.futures.ThreadPoolExecutor(a.j) as ex:
    for name,meta,st,info,res in ex.map(lambda d: run(d,a.all_props), dirs):
        print('%-34s %-7s %s %s'%(name,({'MISSED':'silent','CAUGHT':'ALARM'}.get(st,st) if a.benign else st),meta.get('title','')[:90],info))
        JS.append(dict(name=name,property=meta['property'],title=meta.get('title',''),status=st,rules=sorted(set(l.split()[1] for prop,s_,failed in res if prop==meta['property'] for l in failed if len(l.split())>1))))
        for prop,s,failed in res:
            if s!='silent':
                for l in failed[:6]: print('      [%s] %s'%(prop,l[:230]))
        if a.benign:
            if st!='MISSED': missed+=1
        elif st!='CAUGHT': missed+=1
if a.benign: print('%d behaviour-preserving changes, %d FALSE ALARMS (or errors)'%(len(dirs),missed))
else: print('%d seeded changes, %d not caught by their own property'%(len(dirs),missed))

if a.json: json.dump(JS,open(a.json,'w'),indent=1)
