#!/bin/bash
# Development aid: confirms a sub-agent's seeded change in its scratch worktree and, if it holds up,
# stores it as /verif/seeded/<id>-<i>/ (patch.diff, demo_test.go, meta.json).
# usage: [SEEDBASE=/tmp/seed2 SEEDOFFSET=2] seedverify.sh C04 1 [pkgs]   (worktree $SEEDBASE/C04, results in $SEEDBASE/C04-out)
set -u
id=$1; i=$2; base=${SEEDBASE:-/tmp/seed}; wt=$base/$id; out=$base/$id-out
export GOFLAGS=-mod=mod GOPROXY=off GOSUMDB=off GOTOOLCHAIN=local; unset GOWORK
meta=$out/meta$i.json
mod=$(jq -r .module $meta); demo_path=$(jq -r .demo_path $meta); demo_cmd=$(jq -r .demo_cmd $meta)
clean() { git -C $wt checkout -- . && git -C $wt clean -fdq; }
clean
fail() { echo "SEEDVERIFY $id-$i REJECTED: $1"; clean; exit 1; }
[ -s $out/patch$i.diff ] || fail "no patch"
grep -q "_test.go" <(grep '^+++ ' $out/patch$i.diff) && fail "patch touches a test file"
# 1. demo passes on the clean tree
cp $out/demo${i}_test.go $wt/$demo_path
(cd $wt/$mod && timeout 900 bash -c "$demo_cmd" >$out/verify$i.clean.log 2>&1) || fail "demo fails on the clean tree (see verify$i.clean.log)"
# 2. demo fails with the patch
git -C $wt apply $out/patch$i.diff || fail "patch does not apply"
(cd $wt/$mod && go build ./... ) || fail "does not build"
if (cd $wt/$mod && timeout 900 bash -c "$demo_cmd" >$out/verify$i.patched.log 2>&1); then fail "demo passes with the patch"; fi
# 3. existing tests pass with the patch (demo removed)
rm -f $wt/$demo_path
pkgs=${3:-./...}
(cd $wt/$mod && go test -vet=off -count=1 -timeout 25m ${SKIP:+-skip "$SKIP"} $pkgs >$out/verify$i.tests.log 2>&1) || { grep -E "^(--- FAIL|FAIL|panic)" $out/verify$i.tests.log | head; fail "existing tests fail with the patch (see verify$i.tests.log)"; }
clean
dst=/verif/seeded/$id-$((i+${SEEDOFFSET:-0}))
mkdir -p $dst && cp $out/patch$i.diff $dst/patch.diff && cp $out/demo${i}_test.go $dst/demo_test.go && cp $meta $dst/meta.json
echo "SEEDVERIFY $id-$i CONFIRMED -> $dst"
