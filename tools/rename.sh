#!/bin/sh
# usage: rename.sh <prop> <dir-under-repo> <old> <new>  -- renames identifier in a scratch copy and runs the check
export GOFLAGS=-mod=mod GOPROXY=off GOSUMDB=off GOTOOLCHAIN=local; unset GOWORK
prop=$1; dir=$2; old=$3; new=$4
t=$(mktemp -d /tmp/hcren-XXXX); rsync -a --exclude .git /repo/ $t/repo/; mkdir $t/verif; cp /verif/known_findings.json $t/verif/
find $t/repo/$dir -maxdepth 1 -name '*.go' | xargs sed -i -E "s/\b$old\b/$new/g"
mod=$(echo $dir | cut -d/ -f1)
(cd $t/repo/$mod && go build ./... 2>&1 | head -3)
out=$(HIVECHECK_REPO=$t/repo HIVECHECK_VERIF=$t/verif HIVECHECK_WORK=$t/work /verif/.bin/hivecheck -property $prop -tier quick 2>&1)
echo "$prop $dir $old->$new rc=$? $(echo "$out" | grep -c FAILED) failed"
echo "$out" | grep "FAILED\|advice" | head -4 | cut -c1-220
rm -rf $t
