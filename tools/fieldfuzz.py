"""Development aid (not a registered check): like renamefuzz.py for unexported struct fields named by a rule. Names that are also type names (embedded fields) or import names make the textual renamer rename those too: artefacts."""
import json, re, subprocess, glob, os, concurrent.futures
anch=json.load(open('/verif/hivecheck/anchors.json'))
src=''.join(open(f).read() for f in glob.glob('/verif/hivecheck/prop_*.go')+glob.glob('/verif/hivecheck/rules_*.go'))
jobs=[]
seen=set()
for k,v in sorted(anch.items()):
    if not k.startswith('struct:'): continue
    pkg,tn=k[len('struct:'):].split('|')
    d=pkg.replace('github.com/iotaledger/hive.go/','').replace('serializer/v2','serializer')
    for part in v.split('\x00'):
        name=part.split('\x01')[0]
        if len(name)<4 or name[0].isupper() or ('"'+name+'"') not in src: continue
        props=[]
        for l in open('/verif/properties.jsonl'):
            pd=json.loads(l)
            if any(os.path.dirname(f)==d for f in pd['anchors']['files']): props.append(pd['id'])
        for p in props:
            if (p,d,name) not in seen:
                seen.add((p,d,name)); jobs.append((p,d,name))
print(len(jobs),'jobs')
def run(j):
    p,d,name=j
    r=subprocess.run(['/verif/tools/rename.sh',p,d,name,name+'Renamed'],capture_output=True,text=True)
    return j,r.stdout
bad=0
with concurrent.futures.ThreadPoolExecutor(6) as ex:
    for j,out in ex.map(run,jobs):
        first=[l for l in out.splitlines() if ' rc=' in l]
        st=first[0] if first else out[:200]
        if 'rc=0' not in st:
            bad+=1
            print(st); print('\n'.join(l for l in out.splitlines() if 'FAILED' in l or 'cannot' in l or 'undefined' in l)[:500])
print(len(jobs),'field renames,',bad,'alarmed')
