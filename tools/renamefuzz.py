"""Development aid (not a registered check): renames, one at a time, every unexported function that a rule of hivecheck names (textually, on a scratch copy) and runs the checks of the properties anchored in that package: a pure rename must not change a verdict (hivecheck/anchors.go). The textual renamer also hits builtins and string literals of the same spelling; those runs fail to compile or change a literal and are artefacts."""
import json, re, subprocess, glob, os, concurrent.futures
anch=json.load(open('/verif/hivecheck/anchors.json'))
src=''.join(open(f).read() for f in glob.glob('/verif/hivecheck/prop_*.go')+glob.glob('/verif/hivecheck/rules_*.go'))
PROPMODS={}
for l in open('/verif/properties.jsonl'):
    d=json.loads(l); PROPMODS[d['id']]=set(f.split('/')[0] for f in d['anchors']['files'])
PROPMODS['C12']|={'ds','core','runtime','web'}; PROPMODS['C18']|={'ds','runtime'}; PROPMODS['C13']|={'ds'}
jobs=[]
for k in sorted(anch):
    if k.startswith('struct:'): continue
    pkg,recv,name=k.split('|')
    if len(name)<3 or ('"'+name+'"') not in src: continue
    d=pkg.replace('github.com/iotaledger/hive.go/','').replace('serializer/v2','serializer')
    mod=d.split('/')[0]
    # properties whose anchor files lie in this package directory
    props=[]
    for l in open('/verif/properties.jsonl'):
        pd=json.loads(l)
        if any(os.path.dirname(f)==d for f in pd['anchors']['files']): props.append(pd['id'])
    for p in props: jobs.append((p,d,name))
print(len(jobs),'jobs')
def run(j):
    p,d,name=j
    r=subprocess.run(['/verif/tools/rename.sh',p,d,name,name+'Renamed'],capture_output=True,text=True)
    return j,r.stdout
bad=0
with concurrent.futures.ThreadPoolExecutor(6) as ex:
    for j,out in ex.map(run,jobs):
        first=[l for l in out.splitlines() if ' rc=' in l]
        st=first[0] if first else out[:200]
        if 'rc=0' not in st:
            bad+=1
            print(st); print('\n'.join(l for l in out.splitlines() if 'FAILED' in l or 'cannot' in l or 'undefined' in l)[:700])
print(len(jobs),'renames,',bad,'alarmed')
