#!/bin/bash
# Development aid: confirms the corrected twin of a seeded change (the same refactoring with the defect
# repaired): builds, the seed's demonstration PASSES with it, the existing tests pass; stores it as
# /verif/benign/<id>-<i+offset>/ (patch.diff, meta.json).
# usage: [TWBASE=/tmp/seed3 TWOFFSET=10] twinverify.sh C04 1 ; SKIP=regex to skip flaky tests
set -u
id=$1; i=$2; base=${TWBASE:-/tmp/seed3}; wt=$base/$id; out=$base/$id-out
export GOFLAGS=-mod=mod GOPROXY=off GOSUMDB=off GOTOOLCHAIN=local; unset GOWORK
meta=$out/meta$i.json; tmeta=$out/twinmeta$i.json
mod=$(jq -r .module $meta); demo_path=$(jq -r .demo_path $meta); demo_cmd=$(jq -r .demo_cmd $meta)
clean() { git -C $wt checkout -- . && git -C $wt clean -fdq; }
fail() { echo "TWINVERIFY $id-$i REJECTED: $1"; clean; exit 1; }
clean
[ -s $out/twin$i.diff ] || fail "no twin patch"
grep -q "_test.go" <(grep '^+++ ' $out/twin$i.diff) && fail "patch touches a test file"
git -C $wt apply $out/twin$i.diff || fail "patch does not apply"
(cd $wt/$mod && go build ./... ) || fail "does not build"
cp $out/demo${i}_test.go $wt/$demo_path
(cd $wt/$mod && timeout 900 bash -c "$demo_cmd" >$out/twinverify$i.demo.log 2>&1) || fail "the seed's demonstration still fails with the twin (see twinverify$i.demo.log)"
rm -f $wt/$demo_path
(cd $wt/$mod && go test -vet=off -count=1 -timeout 25m ${SKIP:+-skip "$SKIP"} ./... >$out/twinverify$i.tests.log 2>&1) || { grep -E "^(--- FAIL|FAIL|panic)" $out/twinverify$i.tests.log | head -5; fail "existing tests fail"; }
clean
dst=/verif/benign/$id-$((i+${TWOFFSET:-10})); mkdir -p $dst && cp $out/twin$i.diff $dst/patch.diff && cp $tmeta $dst/meta.json
echo "TWINVERIFY $id-$i CONFIRMED -> $dst"
